//! a recording test command: stores every received argument list
use duckscript::types::command::{Command, CommandInvocationContext, CommandResult};
use std::sync::{Arc, Mutex};

#[derive(Clone)]
pub struct Record {
    pub name: String,
    pub calls: Arc<Mutex<Vec<Vec<String>>>>,
    pub output: Option<String>,
}
impl Command for Record {
    fn name(&self) -> String {
        self.name.clone()
    }
    fn clone_and_box(&self) -> Box<dyn Command> {
        Box::new(self.clone())
    }
    fn run(&self, context: CommandInvocationContext) -> CommandResult {
        self.calls.lock().unwrap().push(context.arguments.clone());
        CommandResult::Continue(self.output.clone())
    }
}
