//! Finder / replay harness: runs the REAL duckscript code (path dependencies on the tree being
//! checked) against executable transcriptions of the property-level specifications.
//! Sampled and bounded; never contributes to `discharged`.
//!
//! usage: verif_finder <property> find <seed> <budget_seconds>
//!        verif_finder <property> run <json-file-with-"input">
//! prints one JSON object on the last stdout line.
use serde_json::{json, Value};
use std::time::{Duration, Instant};

mod deco;
mod rng;
mod c15;
mod c06;
mod c11;
mod c04;
mod c05;
mod c16;
mod c01;
mod c03;
mod rec;
mod c02;
mod c09;
mod c16b;
mod c16c;
mod c12;
mod c19;
mod c14;
mod c20;
mod c10;
mod c07;

pub struct Budget {
    pub end: Instant,
}
impl Budget {
    pub fn left(&self) -> bool {
        Instant::now() < self.end
    }
}

/// run one input for a property; Some(detail) = the property is violated on this input
fn run_one(pid: &str, input: &Value) -> Option<Value> {
    let input = input.clone();
    let pid_s = pid.to_string();
    let r = std::panic::catch_unwind(move || match pid_s.as_str() {
        "C15" => c15::run(&input),
        "C06" => c06::run(&input),
        "C11" => c11::run(&input),
        "C04" => c04::run(&input),
        "C05" => c05::run(&input),
        "C16" => if input.get("kind").is_some() { c16c::run(&input) } else if input.get("needle").is_some() { c16b::run(&input) } else { c16::run(&input) },
        "C01" | "C08" => c01::run(&input),
        "C03" | "C13" => c03::run(&input),
        "C02" => c02::run(&input),
        "C09" => c09::run(&input),
        // script-implemented collection commands are checked with the deep handle-table comparison of the C19 module
        "C12" => if input.get("deep").is_some() { c19::run(&input) } else { c12::run(&input) },
        "C19" => c19::run(&input),
        "C14" => c14::run(&input),
        "C20" => c20::run(&input),
        "C10" => c10::run(&input),
        "C07" => c07::run(&input),
        _ => None,
    });
    match r {
        Ok(v) => v,
        Err(e) => {
            let msg = if let Some(s) = e.downcast_ref::<String>() {
                s.clone()
            } else if let Some(s) = e.downcast_ref::<&str>() {
                s.to_string()
            } else {
                "panic".to_string()
            };
            Some(json!({"panic": msg}))
        }
    }
}

fn gen(pid: &str, r: &mut rng::Rng) -> Option<Value> {
    match pid {
        "C15" => Some(c15::gen(r)),
        "C06" => Some(c06::gen(r)),
        "C11" => Some(c11::gen(r)),
        "C04" => Some(c04::gen(r)),
        "C05" => Some(c05::gen(r)),
        "C16" => Some(match r.below(3) { 0 => c16::gen(r), 1 => c16b::gen(r), _ => c16c::gen(r) }),
        "C01" | "C08" => Some(c01::gen(r)),
        "C03" | "C13" => Some(c03::gen(r)),
        "C02" => Some(c02::gen(r)),
        "C09" => Some(c09::gen(r)),
        "C12" => Some(if r.chance(1, 5) { c19::gen_deep_collections(r) } else { c12::gen(r) }),
        "C19" => Some(c19::gen(r)),
        "C14" => Some(c14::gen(r)),
        "C20" => Some(c20::gen(r)),
        "C10" => Some(c10::gen(r)),
        "C07" => Some(c07::gen(r)),
        _ => None,
    }
}

/// greedy shrinking of list-shaped inputs (keys "ops", "args", "lines", "tokens"): drop one element at a time
fn shrink(pid: &str, mut input: Value, mut detail: Value) -> (Value, Value) {
    for key in ["ops", "args", "lines", "tokens", "calls", "prog", "body"] {
        if !input.get(key).map(|v| v.is_array()).unwrap_or(false) {
            continue;
        }
        let mut progress = true;
        while progress {
            progress = false;
            let n = input[key].as_array().unwrap().len();
            for i in (0..n).rev() {
                let mut cand = input.clone();
                cand[key].as_array_mut().unwrap().remove(i);
                if let Some(d) = run_one(pid, &cand) {
                    input = cand;
                    detail = d;
                    progress = true;
                    break;
                }
            }
        }
    }
    (input, detail)
}

fn main() {
    let args: Vec<String> = std::env::args().collect();
    if args.len() < 4 {
        eprintln!("usage: verif_finder <property> find <seed> <budget_s> | run <file>");
        std::process::exit(2);
    }
    std::panic::set_hook(Box::new(|_| {}));
    let pid = args[1].as_str();
    match args[2].as_str() {
        "find" => {
            let seed: u64 = args[3].parse().unwrap_or(0);
            let secs: u64 = args.get(4).and_then(|s| s.parse().ok()).unwrap_or(10);
            let budget = Budget { end: Instant::now() + Duration::from_secs(secs) };
            let mut r = rng::Rng::new(seed.wrapping_mul(0x9E3779B97F4A7C15).wrapping_add(12345));
            let mut n = 0u64;
            let mut known_hits = 0u64;
            let skip_classes: Vec<String> = args.iter().skip(5).cloned().collect();
            let trace_inputs = std::env::var("VERIF_FINDER_TRACE").is_ok();
            while budget.left() {
                let input = match gen(pid, &mut r) {
                    Some(v) => v,
                    None => {
                        println!("{}", json!({"found": false, "evaluations": 0, "unsupported": true}));
                        return;
                    }
                };
                n += 1;
                if trace_inputs {
                    eprintln!("{}", input);
                }
                if let Some(detail) = run_one(pid, &input) {
                    let cls = detail.get("class").and_then(|c| c.as_str()).unwrap_or("").to_string();
                    if !cls.is_empty() && skip_classes.contains(&cls) {
                        known_hits += 1;
                        continue;
                    }
                    let (input, detail) = shrink(pid, input, detail);
                    println!("{}", json!({"found": true, "evaluations": n, "input": input, "detail": detail}));
                    return;
                }
            }
            println!("{}", json!({"found": false, "evaluations": n, "known_class_hits": known_hits}));
        }
        "run" => {
            let text = std::fs::read_to_string(&args[3]).expect("read replay file");
            let v: Value = serde_json::from_str(&text).expect("json");
            let input = if v.get("counterexample").map(|c| !c.is_null()).unwrap_or(false) {
                v["counterexample"]["input"].clone()
            } else if v.get("witness").is_some() {
                v["witness"].clone()
            } else {
                v["input"].clone()
            };
            match run_one(pid, &input) {
                Some(detail) => println!("{}", json!({"fails": true, "detail": detail})),
                None => println!("{}", json!({"fails": false})),
            }
        }
        _ => std::process::exit(2),
    }
}
