pub struct Rng(u64);
impl Rng {
    pub fn new(seed: u64) -> Rng {
        Rng(seed | 1)
    }
    pub fn next(&mut self) -> u64 {
        let mut x = self.0;
        x ^= x << 13;
        x ^= x >> 7;
        x ^= x << 17;
        self.0 = x;
        x.wrapping_mul(0x2545F4914F6CDD1D)
    }
    pub fn below(&mut self, n: usize) -> usize {
        if n == 0 {
            0
        } else {
            (self.next() % (n as u64)) as usize
        }
    }
    pub fn chance(&mut self, num: usize, den: usize) -> bool {
        self.below(den) < num
    }
    pub fn pick<'a, T>(&mut self, v: &'a [T]) -> &'a T {
        &v[self.below(v.len())]
    }
}
