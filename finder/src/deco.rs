//! Layout noise that must not matter: indentation, trailing blanks, trailing comments, blank / comment / !print lines
//! between the lines of a generated program. Deterministic in `seed` (0 = leave the program as it is).
use crate::rng::Rng;

pub fn decorate(lines: &[String], seed: u64) -> Vec<String> {
    if seed == 0 {
        return lines.to_vec();
    }
    let mut r = Rng::new(seed);
    let mut out = vec![];
    for l in lines {
        match r.below(8) {
            0 => out.push(String::new()),
            1 => out.push("  # a comment line: if true".to_string()),
            2 => out.push("\t!print".to_string()),
            _ => {}
        }
        let lead = ["", "", " ", "    ", "\t", " \t "][r.below(6)];
        let trail = ["", "", " ", "   ", " # trailing comment", "\t"][r.below(6)];
        // a trailing comment is only added where `#` cannot be taken for part of a quoted value
        let trail = if trail.contains('#') && l.contains('"') { " " } else { trail };
        out.push(format!("{}{}{}", lead, l, trail));
    }
    if r.chance(1, 3) {
        out.push("# the end".to_string());
    }
    out
}
