//! C19: script-implemented library commands leave no trace: the caller's variables are unchanged apart
//! from the output variable, and no handle created for argument passing stays behind.
use crate::rng::Rng;
use duckscript::runner;
use duckscript::types::runtime::{Context, StateValue};
use serde_json::{json, Value};
use std::collections::BTreeMap;

fn handle_count(ctx: &Context) -> usize {
    match ctx.state.get("handles") {
        Some(StateValue::SubState(m)) => m.len(),
        _ => 0,
    }
}

pub fn gen(r: &mut Rng) -> Value {
    // script-implemented commands, with arguments that make them succeed or fail
    let calls = [
        "array_contains ${arr} b", "array_contains ${arr} zz", "array_contains nohandle b", "array_join ${arr} ,", "array_join nohandle ,",
        "array_concat ${arr} ${arr}", "array_concat nohandle ${arr}", "array_is_empty ${arr}", "set_from_array ${arr}", "set_from_array nohandle",
        "map_contains_value ${map} v1", "map_contains_key ${map} k1", "map_is_empty ${map}", "set_is_empty ${set}", "join_path a b c",
        "unset va", "is_empty \"\"", "concat a b c", "map_contains_value nohandle x", "array_is_empty nohandle",
    ];
    let n = 1 + r.below(4);
    let seq: Vec<String> = (0..n).map(|_| r.pick(&calls).to_string()).collect();
    // caller variables whose names are close to the names the called command uses internally (same textual
    // prefix without the `::` delimiter, the bare scope name, numbered names, names used inside script bodies)
    let shapes = ["scope::@", "scope::@_x::v", "scope::@x", "scope::@:", "@", "@::v", "scope::", "scope", "1", "2", "argument", "array", "result", "scope::@ ::v"];
    let mut extra = vec![];
    for _ in 0..r.below(4) {
        let cmd = r.pick(&seq).split(' ').next().unwrap_or("x").to_string();
        extra.push(r.pick(&shapes).replace('@', &cmd));
    }
    json!({"calls": seq, "with_out": r.chance(2, 3), "caller_vars": extra})
}

/// structural class of an input (to tell the listed known finding from a new violation)
pub fn class_of(input: &Value) -> &'static str {
    let calls: Vec<String> = input["calls"].as_array().map(|a| a.iter().map(|c| c.as_str().unwrap_or("").to_string()).collect()).unwrap_or_default();
    let n = calls.iter().filter(|c| c.starts_with("array_concat nohandle")).count();
    if n >= 2 { "script-command-for-loop-left-by-error-then-called-again" } else { "other" }
}

pub fn run(input: &Value) -> Option<Value> {
    run_inner(input).map(|mut d| {
        d["class"] = json!(class_of(input));
        d
    })
}

fn run_inner(input: &Value) -> Option<Value> {
    let mut context = Context::new();
    duckscriptsdk::load(&mut context.commands).ok()?;
    let setup = "arr = array a b c\nmap = map\nmap_put ${map} k1 v1\nset = set_new x y\nva = set 1\nvb = set 2\nscope::caller::x = set keep";
    context = runner::run_script(setup, context, None).ok()?;
    if let Some(vs) = input["caller_vars"].as_array() {
        for (k, v) in vs.iter().enumerate() {
            context.variables.insert(v.as_str()?.to_string(), format!("caller{}", k));
        }
    }
    let with_out = input["with_out"].as_bool()?;
    for (i, c) in input["calls"].as_array()?.iter().enumerate() {
        let call = c.as_str()?;
        if !with_out && (call.starts_with("array_concat ${arr}") || call.starts_with("set_from_array ${arr}")) {
            continue; // the returned collection would not be captured: cannot be told apart from a leak
        }
        let before: BTreeMap<String, String> = context.variables.iter().map(|(k, v)| (k.clone(), v.clone())).collect();
        let h_before = handle_count(&context);
        let script = if with_out { format!("out = {}", call) } else { call.to_string() };
        context = match runner::run_script(&script, context, None) {
            Ok(c) => c,
            Err(e) => return Some(json!({"step": i, "script": script, "error": e.to_string()})),
        };
        let mut after: BTreeMap<String, String> = context.variables.iter().map(|(k, v)| (k.clone(), v.clone())).collect();
        let out = after.remove("out");
        let mut expect = before.clone();
        expect.remove("out");
        // documented effects: `unset va` removes va
        if call == "unset va" {
            expect.remove("va");
        }
        if after != expect {
            return Some(json!({"step": i, "script": script, "what": "caller variables changed (beyond the output variable and documented effects)", "before": expect, "after": after}));
        }
        // commands that return a new collection legitimately create one handle (named by the output)
        let creates = (call.starts_with("array_concat ${arr}") || call.starts_with("set_from_array ${arr}")) && out.as_deref().map(|o| o.starts_with("handle:")).unwrap_or(false);
        let h_after = handle_count(&context);
        let allowed = h_before + if creates { 1 } else { 0 };
        if h_after > allowed {
            return Some(json!({"step": i, "script": script, "what": "a temporary collection was not released", "handles_before": h_before, "handles_after": h_after}));
        }
        if creates {
            // release the returned collection so that the count stays comparable
            let rel = format!("release {}", out.unwrap());
            context = runner::run_script(&rel, context, None).ok()?;
        } else if !with_out && (call.starts_with("array_concat ${arr}") || call.starts_with("set_from_array ${arr}")) {
            return None; // result handle not captured: cannot be told apart from a leak; skip this sample
        }
        context.variables.remove("out");
    }
    None
}
