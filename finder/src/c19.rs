//! C19: script-implemented library commands leave no trace: the caller's variables are unchanged apart
//! from the output variable, and no handle created for argument passing stays behind.
use crate::rng::Rng;
use duckscript::runner;
use duckscript::types::runtime::{Context, StateValue};
use serde_json::{json, Value};
use std::collections::BTreeMap;

fn handle_count(ctx: &Context) -> usize {
    match ctx.state.get("handles") {
        Some(StateValue::SubState(m)) => m.len(),
        _ => 0,
    }
}

const DEEP_CALLS: [&str; 34] = [
    "printenv", "print_env",
    // (an invalid mode makes chmod itself report an error in the middle of the body)
    "glob_chmod abc @D@/*.txt", "chmod_glob abc @D@/*.nomatch",
    "map_contains_value ${hk} nosuch", "map_contains_value ${hk} v", "map_contains_value ${map} nosuch", "map_contains_key ${hk} ${arr}", "map_contains_key ${hk} zz",
    "map_is_empty ${hk}", "set_from_array ${nested}", "array_concat ${nested} ${arr}", "array_join ${nested} ,", "array_join ${arr} \"\\t\"", "array_contains ${nested} ${arr}",
    "array_contains ${nested} zz", "array_is_empty ${nested}", "set_is_empty ${hset}", "concat ${arr} x", "join_path ${arr} b",
    "glob_cp @D@/*.txt @D@/out", "glob_cp @D@/*.nomatch @D@/out", "cp_glob @D@/a.txt @D@/out", "glob_cp @D@/missing.txt @D@/out",
    "glob_chmod 777 @D@/*.txt", "chmod_glob 777 @D@/*.nomatch", "sha256sum @D@/a.txt", "sha512sum @D@/a.txt", "sha256sum @D@/missing.txt",
    "is_windows", "uname", "unset scope::unset_x::v", "unset nested", "is_empty ${arr}",
];

fn canon(v: &StateValue) -> Value {
    match v {
        StateValue::Boolean(b) => json!({"b": b}),
        StateValue::Number(n) => json!({"n": n}),
        StateValue::UnsignedNumber(n) => json!({"u": n}),
        StateValue::Number32Bit(n) => json!({"n32": n}),
        StateValue::UnsignedNumber32Bit(n) => json!({"u32": n}),
        StateValue::Number64Bit(n) => json!({"n64": n}),
        StateValue::UnsignedNumber64Bit(n) => json!({"u64": n}),
        StateValue::String(s) => json!({"s": s}),
        StateValue::ByteArray(b) => json!({"bytes": b}),
        StateValue::List(l) => json!({"list": l.iter().map(canon).collect::<Vec<Value>>()}),
        StateValue::Set(st) => {
            let mut v: Vec<String> = st.iter().cloned().collect();
            v.sort();
            json!({"set": v})
        }
        StateValue::SubState(m) => {
            let bm: BTreeMap<String, Value> = m.iter().map(|(k, x)| (k.clone(), canon(x))).collect();
            json!({"sub": bm})
        }
        StateValue::Any(_) => json!("any"),
    }
}

fn handle_table(ctx: &Context) -> BTreeMap<String, Value> {
    match ctx.state.get("handles") {
        Some(StateValue::SubState(m)) => m.iter().map(|(k, v)| (k.clone(), canon(v))).collect(),
        _ => BTreeMap::new(),
    }
}

/// the deep scenario restricted to the script-implemented collection commands (used for C12)
pub fn gen_deep_collections(r: &mut Rng) -> Value {
    let n = 1 + r.below(4);
    let seq: Vec<String> = (0..n).map(|_| DEEP_CALLS[4 + r.below(14)].to_string()).collect();
    json!({"deep": true, "calls": seq, "with_out": r.chance(3, 4)})
}

pub fn gen(r: &mut Rng) -> Value {
    if r.chance(1, 2) {
        // deep scenario: every script-implemented command, collections that hold handles of other collections
        // (as array items, set members, map KEYS), files under a scratch directory; the whole handle table is compared
        let n = 1 + r.below(4);
        let seq: Vec<String> = (0..n).map(|_| r.pick(&DEEP_CALLS).to_string()).collect();
        return json!({"deep": true, "calls": seq, "with_out": r.chance(3, 4)});
    }
    // script-implemented commands, with arguments that make them succeed or fail
    let calls = [
        "array_contains ${arr} b", "array_contains ${arr} zz", "array_contains nohandle b", "array_join ${arr} ,", "array_join nohandle ,",
        "array_concat ${arr} ${arr}", "array_concat nohandle ${arr}", "array_is_empty ${arr}", "set_from_array ${arr}", "set_from_array nohandle",
        "map_contains_value ${map} v1", "map_contains_key ${map} k1", "map_is_empty ${map}", "set_is_empty ${set}", "join_path a b c",
        "unset va", "is_empty \"\"", "concat a b c", "map_contains_value nohandle x", "array_is_empty nohandle",
        // a collection whose items are special text (a lone `=`, text with a blank, a comment sign, reference text),
        // searched for values that are themselves command names
        "array_contains ${sp} pwd", "array_contains ${sp} array", "array_contains ${sp} zz", "array_contains ${sp} \"a b\"", "array_join ${sp} ,", "array_is_empty ${sp}",
        "map_contains_value ${mp} pwd", "map_contains_value ${mp} =",
        // a map with the empty text as a key, a map / an array holding option-like words as data
        "map_contains_value ${me} nosuch", "map_contains_value ${me} v2", "map_contains_key ${me} \"\"", "map_contains_value ${mo} nosuch", "array_contains ${ao} zz", "array_contains ${ao} -r",
        // an argument value that starts with `=` (class of the C09 known finding: the body's `if <command> ${argument}`
        // re-reads `<command> =x` as an assignment to a variable named like the command)
        "array_join ${arr} \"=\"", "join_path \"=a\" b", "array_concat \"=x\" ${arr}", "set_from_array \"=x\"", "array_join ${arr} \"=-\"",
        // an argument that spells a library command (it is text)
        "array_join ${arr} array", "array_join ${arr} pwd", "concat array pwd", "join_path array pwd",
        // names padded with a blank: " va" / "vb " are not the caller's va / vb
        "unset \" va\"", "unset \"vb \"", "unset \" va\" \"vb \"",
        // arguments that name the called command's own working variables
        "unset vb scope::unset::arguments", "unset scope::unset::arguments", "unset scope::unset::name vb", "is_empty scope::is_empty::arguments",
    ];
    let dict = dictionary();
    if !dict.is_empty() && r.chance(1, 8) {
        // an option-like word that occurs in the source of the tree under test, stored as DATA in a map and in an array
        // that script-implemented commands search (such a word is text like any other)
        let w = r.pick(dict);
        let extra_setup = format!("md = map\nmap_put ${{md}} k1 \"{}\"\nmap_put ${{md}} k2 other\nad = array \"{}\" x", w, w);
        let seq: Vec<String> = vec![format!("map_contains_value ${{md}} {}", r.pick(&["nosuch", "other", w.as_str()])), format!("array_contains ${{ad}} {}", r.pick(&["zz", "x", w.as_str()]))];
        return json!({"calls": seq, "with_out": true, "caller_vars": [], "wraps": [0, 0], "extra_setup": extra_setup});
    }
    let n = 1 + r.below(4);
    let seq: Vec<String> = (0..n).map(|_| r.pick(&calls).to_string()).collect();
    // caller variables whose names are close to the names the called command uses internally (same textual
    // prefix without the `::` delimiter, the bare scope name, numbered names, names used inside script bodies)
    let shapes = ["pre_scope::@::v", "xscope::@::", "is_empty", "is_array", "contains", "equals", "not", "scope::@", "scope::@_x::v", "scope::@x", "scope::@:", "@", "@::v", "scope::", "scope", "1", "2", "argument", "array", "result", "scope::@ ::v"];
    let mut extra = vec![];
    for _ in 0..r.below(4) {
        let cmd = r.pick(&seq).split(' ').next().unwrap_or("x").to_string();
        extra.push(r.pick(&shapes).replace('@', &cmd));
    }
    // a call may sit in a loop body (it then runs twice) or in the body of a function that is called
    let wraps: Vec<u64> = seq.iter().map(|_| if r.chance(1, 3) { 1 + r.below(2) as u64 } else { 0 }).collect();
    json!({"calls": seq, "with_out": r.chance(2, 3), "caller_vars": extra, "wraps": wraps})
}

/// option-like words harvested by the driver from the source of the tree under test (VERIF_DICT names the file)
fn dictionary() -> &'static Vec<String> {
    static D: std::sync::OnceLock<Vec<String>> = std::sync::OnceLock::new();
    D.get_or_init(|| {
        std::env::var("VERIF_DICT").ok().and_then(|p| std::fs::read_to_string(p).ok()).map(|t| t.lines().filter(|l| !l.is_empty()).map(|l| l.to_string()).collect()).unwrap_or_default()
    })
}

/// structural class of an input (to tell the listed known finding from a new violation)
pub fn class_of(input: &Value) -> &'static str {
    let calls: Vec<String> = input["calls"].as_array().map(|a| a.iter().map(|c| c.as_str().unwrap_or("").to_string()).collect()).unwrap_or_default();
    let n = calls.iter().filter(|c| c.starts_with("array_concat nohandle")).count();
    let eq = calls.iter().any(|c| c.split(' ').skip(1).any(|a| a.starts_with('=') || a.starts_with("\"=")));
    let gc = calls.iter().any(|c| (c.starts_with("glob_chmod abc") || c.starts_with("chmod_glob abc")) && c.ends_with("*.txt"));
    if gc { "glob-chmod-leaks-its-file-list-when-chmod-reports-an-error" } else if eq { "script-command-argument-starting-with-equals-sign" } else if n >= 2 { "script-command-for-loop-left-by-error-then-called-again" } else { "other" }
}

pub fn run(input: &Value) -> Option<Value> {
    run_inner(input).map(|mut d| {
        d["class"] = json!(class_of(input));
        d
    })
}

fn run_deep(input: &Value) -> Option<Value> {
    let dir = std::env::temp_dir().join(format!("verif_c19_{}", std::process::id()));
    let _ = std::fs::remove_dir_all(&dir);
    std::fs::create_dir_all(dir.join("out")).ok()?;
    std::fs::write(dir.join("a.txt"), "aaa").ok()?;
    std::fs::write(dir.join("b.txt"), "bbb").ok()?;
    let d = dir.to_string_lossy().to_string();
    let mut context = Context::new();
    duckscriptsdk::load(&mut context.commands).ok()?;
    let setup = "arr = array a b c\nmap = map\nmap_put ${map} k1 v1\nhset = set_new x\nset_put ${hset} ${arr}\nnested = array n1 ${arr} ${hset}\nhk = map\nmap_put ${hk} ${arr} v\nmap_put ${hk} ${nested} w\nscope::unset_x::v = set keep\nva = set 1";
    context = runner::run_script(setup, context, None).ok()?;
    let with_out = input["with_out"].as_bool()?;
    let mut res = None;
    for (i, c) in input["calls"].as_array()?.iter().enumerate() {
        let call = c.as_str()?.replace("@D@", &d);
        let returns_handle = call.starts_with("array_concat ") || call.starts_with("set_from_array ");
        if returns_handle && !with_out {
            continue;
        }
        let before: BTreeMap<String, String> = context.variables.iter().map(|(k, v)| (k.clone(), v.clone())).collect();
        let t_before = handle_table(&context);
        let script = if with_out { format!("out = {}", call) } else { call.clone() };
        let quiet = duckscript::types::env::Env::new(Some(Box::new(std::io::sink())), Some(Box::new(std::io::sink())), None);
        context = match runner::run_script(&script, context, Some(quiet)) {
            Ok(c) => c,
            Err(e) => { res = Some(json!({"step": i, "script": script, "error": e.to_string()})); break; }
        };
        let mut after: BTreeMap<String, String> = context.variables.iter().map(|(k, v)| (k.clone(), v.clone())).collect();
        let out = after.remove("out");
        let mut expect = before.clone();
        expect.remove("out");
        if call == "unset scope::unset_x::v" { expect.remove("scope::unset_x::v"); }
        if call == "unset nested" { expect.remove("nested"); }
        if after != expect {
            res = Some(json!({"step": i, "script": script, "what": "caller variables changed (beyond the output variable and documented effects)", "before": expect, "after": after}));
            break;
        }
        // the handle table: every collection that was live is still there with the same contents, and nothing new
        // stays behind except a collection the command documents returning (named by the output variable)
        let mut t_after = handle_table(&context);
        let mut created = None;
        if returns_handle {
            if let Some(o) = &out {
                if t_after.contains_key(o) && !t_before.contains_key(o) {
                    created = Some(o.clone());
                    t_after.remove(o);
                }
            }
        }
        if t_after != t_before {
            let gone: Vec<&String> = t_before.keys().filter(|k| !t_after.contains_key(*k)).collect();
            let extra: Vec<&String> = t_after.keys().filter(|k| !t_before.contains_key(*k)).collect();
            res = Some(json!({"step": i, "script": script, "what": "the handle table changed: a live collection was released / altered, or a temporary collection was left behind", "released": gone, "left_behind": extra}));
            break;
        }
        if let Some(o) = created {
            context = runner::run_script(&format!("release {}", o), context, None).ok()?;
        }
        context.variables.remove("out");
    }
    let _ = std::fs::remove_dir_all(&dir);
    res
}

fn run_inner(input: &Value) -> Option<Value> {
    if input["deep"].as_bool().unwrap_or(false) {
        return run_deep(input);
    }
    let mut context = Context::new();
    duckscriptsdk::load(&mut context.commands).ok()?;
    let setup = "arr = array a b c\nmap = map\nmap_put ${map} k1 v1\nset = set_new x y\nva = set 1\nvb = set 2\nscope::caller::x = set keep\nsp = array x = \"a b\" \"#c\" pwd\nmp = map\nmap_put ${mp} k =\nmap_put ${mp} k2 pwd\nme = map\nmap_put ${me} \"\" v0\nmap_put ${me} k2 v2\nmo = map\nmap_put ${mo} k1 --help\nmap_put ${mo} k2 -r\nao = array --help -r --collection";
    context = runner::run_script(setup, context, None).ok()?;
    if let Some(x) = input["extra_setup"].as_str() {
        context = runner::run_script(x, context, None).ok()?;
    }
    if let Some(vs) = input["caller_vars"].as_array() {
        for (k, v) in vs.iter().enumerate() {
            context.variables.insert(v.as_str()?.to_string(), format!("caller{}", k));
        }
    }
    let with_out = input["with_out"].as_bool()?;
    for (i, c) in input["calls"].as_array()?.iter().enumerate() {
        let call = c.as_str()?;
        if !with_out && (call.starts_with("array_concat ${arr}") || call.starts_with("set_from_array ${arr}")) {
            continue; // the returned collection would not be captured: cannot be told apart from a leak
        }
        let creates_handle = call.starts_with("array_concat ${arr}") || call.starts_with("set_from_array ${arr}");
        let wrap = if creates_handle { 0 } else { input["wraps"].as_array().and_then(|w| w.get(i)).and_then(|x| x.as_u64()).unwrap_or(0) };
        if wrap == 1 {
            context = runner::run_script("hw = range 0 2\nwi = set x", context, None).ok()?;
        }
        let before: BTreeMap<String, String> = context.variables.iter().map(|(k, v)| (k.clone(), v.clone())).collect();
        let h_before = handle_count(&context);
        let line = if with_out { format!("out = {}", call) } else { call.to_string() };
        let script = match wrap {
            1 => format!("for wi in ${{hw}}\n{}\nend", line),
            2 => format!("fn wf{}\n{}\nend\nwf{}", i, line, i),
            _ => line,
        };
        context = match runner::run_script(&script, context, None) {
            Ok(c) => c,
            Err(e) => return Some(json!({"step": i, "script": script, "error": e.to_string()})),
        };
        let mut after: BTreeMap<String, String> = context.variables.iter().map(|(k, v)| (k.clone(), v.clone())).collect();
        let out = after.remove("out");
        let mut expect = before.clone();
        expect.remove("out");
        // documented effects: `unset va` removes va
        if call == "unset va" {
            expect.remove("va");
        }
        if wrap == 1 {
            // the loop variable keeps the last element
            expect.insert("wi".to_string(), "1".to_string());
        }
        if call.starts_with("unset ") && call.contains(" vb") || call == "unset vb scope::unset::arguments" {
            expect.remove("vb");
        }
        if after != expect {
            return Some(json!({"step": i, "script": script, "what": "caller variables changed (beyond the output variable and documented effects)", "before": expect, "after": after}));
        }
        // commands that return a new collection legitimately create one handle (named by the output)
        let creates = (call.starts_with("array_concat ${arr}") || call.starts_with("set_from_array ${arr}")) && out.as_deref().map(|o| o.starts_with("handle:")).unwrap_or(false);
        let h_after = handle_count(&context);
        let allowed = h_before + if creates { 1 } else { 0 };
        if h_after > allowed {
            return Some(json!({"step": i, "script": script, "what": "a temporary collection was not released", "handles_before": h_before, "handles_after": h_after}));
        }
        if creates {
            // release the returned collection so that the count stays comparable
            let rel = format!("release {}", out.unwrap());
            context = runner::run_script(&rel, context, None).ok()?;
        } else if !with_out && (call.starts_with("array_concat ${arr}") || call.starts_with("set_from_array ${arr}")) {
            return None; // result handle not captured: cannot be told apart from a leak; skip this sample
        }
        context.variables.remove("out");
        if wrap == 1 {
            context = runner::run_script("release ${hw}", context, None).ok()?;
            context.variables.remove("hw");
            context.variables.remove("wi");
        }
    }
    None
}
