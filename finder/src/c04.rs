//! C04: well-nested if/elseif/else/while/for-in programs (any spelling) against a tree-walking interpreter.
use crate::rng::Rng;
use duckscript::runner;
use duckscript::types::command::{Command, CommandInvocationContext, CommandResult};
use duckscript::types::runtime::Context;
use serde_json::{json, Value};
use std::collections::BTreeMap;

// AST as JSON:
// {"k":"mark","id":n} | {"k":"assign","var":"b1","val":true}
// {"k":"if","conds":[C..],"bodies":[[..]..],"else":[..]|null,"sp":[spelling indexes]}   C = {"lit":bool}|{"var":"b1"}
// {"k":"while","id":n,"twice":bool,"body":[..],"sp":[..]} | {"k":"for","id":n,"n":k,"body":[..],"sp":[..]}

/// `probe <id> <value>`: a command used as a condition; it leaves a mark in the trace (so that a condition
/// that must not be evaluated is noticed) and returns <value>
#[derive(Clone)]
pub struct Probe {}
impl Command for Probe {
    fn name(&self) -> String {
        "probe".to_string()
    }
    fn clone_and_box(&self) -> Box<dyn Command> {
        Box::new(self.clone())
    }
    fn run(&self, context: CommandInvocationContext) -> CommandResult {
        let t = context.variables.get("trace").cloned().unwrap_or_default();
        context.variables.insert("trace".to_string(), format!("{} p{}", t, context.arguments.get(0).cloned().unwrap_or_default()));
        CommandResult::Continue(context.arguments.get(1).cloned())
    }
}

pub fn gen_block(r: &mut Rng, depth: usize, counter: &mut usize, budget: &mut i32) -> Vec<Value> {
    gen_block_ret(r, depth, counter, budget, false)
}

pub fn gen_block_ret(r: &mut Rng, depth: usize, counter: &mut usize, budget: &mut i32, allow_ret: bool) -> Vec<Value> {
    let n = 1 + r.below(3);
    let mut out = vec![];
    for _ in 0..n {
        if *budget <= 0 {
            break;
        }
        *budget -= 1;
        *counter += 1;
        let id = *counter;
        let kind = if allow_ret && r.chance(1, 6) { 9 } else if allow_ret && r.chance(1, 8) { 8 } else if depth >= 3 { r.below(2) } else { r.below(6) };
        let sp: Vec<usize> = (0..6).map(|_| r.below(5)).collect();
        match kind {
            9 => out.push(json!({"k": "ret", "val": if r.chance(3, 4) { json!(format!("r{}", id)) } else { Value::Null }})),
            // (function bodies only) a nested call of another function, as an output-assigning statement
            8 => out.push(json!({"k": "callg", "id": id})),
            0 => out.push(json!({"k": "mark", "id": id})),
            1 => out.push(json!({"k": "assign", "var": format!("b{}", r.below(3)), "val": r.chance(1, 2)})),
            2 | 3 => {
                let nc = 1 + r.below(3);
                let mut conds = vec![];
                let mut bodies = vec![];
                for _ in 0..nc {
                    *counter += 1;
                    conds.push(match r.below(5) { 0 => json!({"lit": r.chance(1, 2)}), 1 => json!({"var": format!("b{}", r.below(3))}),
                        // a command in condition position whose own arguments form a statement with and / or / groups
                        2 => json!({"nx": [r.chance(1, 2), r.chance(1, 2)], "op": r.pick(&["and", "or"]), "grp": r.chance(1, 2)}),
                        // a compound statement of values
                        3 => json!({"cx": [r.chance(1, 2), r.chance(1, 2), r.chance(1, 2)], "ops": [r.pick(&["and", "or"]), r.pick(&["and", "or"])], "grp": r.chance(1, 2)}),
                        _ => json!({"probe": *counter, "val": r.chance(1, 2)}) });
                    bodies.push(Value::Array(gen_block_ret(r, depth + 1, counter, budget, allow_ret)));
                }
                let els = if r.chance(1, 2) { Value::Array(gen_block_ret(r, depth + 1, counter, budget, allow_ret)) } else { Value::Null };
                out.push(json!({"k": "if", "conds": conds, "bodies": bodies, "else": els, "sp": sp}));
            }
            // "once": the loop runs only the first time it is reached (later it is reached with a condition that is already false)
            4 => out.push(json!({"k": "while", "id": id, "twice": r.chance(1, 2), "once": r.chance(1, 3), "body": gen_block_ret(r, depth + 1, counter, budget, allow_ret), "sp": sp})),
            _ => out.push(json!({"k": "for", "id": id, "n": if depth == 0 && r.chance(1, 12) { 130 + r.below(30) } else { r.below(3) }, "body": gen_block_ret(r, depth + 1, counter, budget, allow_ret), "sp": sp})),
        }
    }
    out
}

const LIB_CALLS: [&str; 8] = ["array_contains ${arr} b", "array_contains ${arr} zz", "array_join ${arr} ,", "array_is_empty ${arr}", "concat a b", "base64 -decode YWJj", "join_path a b", "map_contains_value ${mp} v"];

/// blocks whose bodies call library commands that are themselves written in duckscript (they share the block stacks
/// with the caller under their own line context): the chain is shifted over line indexes 0..24 so that its else /
/// elseif / end lines meet every line index such a command uses internally
fn gen_libif(r: &mut Rng) -> Value {
    json!({"kind": "libif", "pad": r.below(25), "cmd": r.pick(&LIB_CALLS), "shape": r.below(4), "in_loop": r.chance(1, 3)})
}

fn run_libif(input: &Value) -> Option<Value> {
    let pad = input["pad"].as_u64()? as usize;
    let cmd = input["cmd"].as_str()?;
    let shape = input["shape"].as_u64()?;
    let in_loop = input["in_loop"].as_bool()?;
    let mut l: Vec<String> = vec!["t = set \"\"".to_string(), "arr = array a b c".to_string(), "mp = map".to_string(), "map_put ${mp} k v".to_string()];
    for k in 0..pad { l.push(format!("pad{} = set {}", k % 3, k)); }
    let mut want = String::new();
    let rounds = if in_loop { 2 } else { 1 };
    if in_loop { l.push("rounds = range 0 2".to_string()); l.push("for round in ${rounds}".to_string()); }
    match shape {
        0 => { l.extend(["if true", "r = LIB", "t = set \"${t}then;\"", "else", "t = set \"${t}else;\"", "end"].iter().map(|x| x.replace("LIB", cmd))); for _ in 0..rounds { want.push_str("then;"); } }
        1 => { l.extend(["if false", "t = set \"${t}then;\"", "elseif true", "r = LIB", "t = set \"${t}elif;\"", "else", "t = set \"${t}else;\"", "end"].iter().map(|x| x.replace("LIB", cmd))); for _ in 0..rounds { want.push_str("elif;"); } }
        2 => { l.extend(["if false", "t = set \"${t}then;\"", "else", "r = LIB", "t = set \"${t}else;\"", "end"].iter().map(|x| x.replace("LIB", cmd))); for _ in 0..rounds { want.push_str("else;"); } }
        _ => { l.extend(["n = set 0", "while equals ${n} 0", "r = LIB", "n = set 1", "t = set \"${t}body;\"", "end"].iter().map(|x| x.replace("LIB", cmd))); for _ in 0..rounds { want.push_str("body;"); } }
    }
    if in_loop { l.push("end".to_string()); l.push("release ${rounds}".to_string()); }
    l.push("t = set \"${t}after;\"".to_string());
    want.push_str("after;");
    let script = l.join("\n");
    let mut context = Context::new();
    duckscriptsdk::load(&mut context.commands).ok()?;
    match runner::run_script(&script, context, None) {
        Ok(ctx) => {
            let got = ctx.variables.get("t").cloned().unwrap_or_default();
            if got != want { Some(json!({"script": script, "what": "branches run differ from the tree-walking reading (a library command written in duckscript is called inside the block)", "model": want, "real": got})) } else { None }
        }
        Err(e) => Some(json!({"script": script, "error": e.to_string()})),
    }
}

pub fn gen(r: &mut Rng) -> Value {
    if r.chance(1, 8) {
        return gen_libif(r);
    }
    let mut c = 0;
    let mut budget = 14;
    let prog = gen_block(r, 0, &mut c, &mut budget);
    if r.chance(1, 10) {
        // history: another program has already run on the same Context
        let mut b2 = 6;
        let prelude = gen_block(r, 0, &mut c, &mut b2);
        return json!({ "prog": prog, "prelude": prelude, "deco": 0 });
    }
    json!({ "prog": prog, "deco": if r.chance(1, 2) { r.next() % 1000000 + 1 } else { 0 } })
}

/// structural class of an input (to tell the listed known finding from a new violation)
pub fn class_of(input: &Value) -> &'static str {
    if input["prelude"].as_array().map(|a| !a.is_empty()).unwrap_or(false) { "second-script-on-a-context-that-already-ran-another-script" } else { "other" }
}

const IF_SP: [&str; 2] = ["if", "std::flowcontrol::If"];
const ELIF_SP: [&str; 3] = ["elif", "elseif", "std::flowcontrol::ElseIf"];
const ELSE_SP: [&str; 2] = ["else", "std::flowcontrol::Else"];
const ENDIF_SP: [&str; 5] = ["end", "end_if", "endif", "fi", "std::flowcontrol::EndIf"];
const WHILE_SP: [&str; 2] = ["while", "std::flowcontrol::While"];
const ENDWHILE_SP: [&str; 4] = ["end", "end_while", "endwhile", "std::flowcontrol::EndWhile"];
const FOR_SP: [&str; 2] = ["for", "std::flowcontrol::ForIn"];
const ENDFOR_SP: [&str; 3] = ["end", "end_for", "std::flowcontrol::EndForIn"];

fn cond_text(c: &Value) -> String {
    if let Some(nx) = c["nx"].as_array() {
        let inner = format!("{} {} {}", nx[0], c["op"].as_str().unwrap(), nx[1]);
        if c["grp"].as_bool().unwrap_or(false) { format!("not ( {} )", inner) } else { format!("not {}", inner) }
    } else if let Some(cx) = c["cx"].as_array() {
        let ops = c["ops"].as_array().unwrap();
        if c["grp"].as_bool().unwrap_or(false) {
            format!("{} {} ( {} {} {} )", cx[0], ops[0].as_str().unwrap(), cx[1], ops[1].as_str().unwrap(), cx[2])
        } else {
            format!("{} {} {} {} {}", cx[0], ops[0].as_str().unwrap(), cx[1], ops[1].as_str().unwrap(), cx[2])
        }
    } else if let Some(b) = c["lit"].as_bool() {
        b.to_string()
    } else if let Some(id) = c["probe"].as_u64() {
        format!("probe {} {}", id, c["val"])
    } else {
        format!("${{{}}}", c["var"].as_str().unwrap())
    }
}

pub fn render(block: &Vec<Value>, out: &mut Vec<String>) {
    for s in block {
        let sp: Vec<usize> = s["sp"].as_array().map(|a| a.iter().map(|x| x.as_u64().unwrap() as usize).collect()).unwrap_or(vec![0; 6]);
        match s["k"].as_str().unwrap() {
            "ret" => out.push(match s["val"].as_str() { Some(v) => format!("return {}", v), None => "return".to_string() }),
            "mark" => out.push(format!("trace = set \"${{trace}} m{}\"", s["id"])),
            "assign" => out.push(format!("{} = set {}", s["var"].as_str().unwrap(), s["val"])),
            "if" => {
                let conds = s["conds"].as_array().unwrap();
                let bodies = s["bodies"].as_array().unwrap();
                for (i, c) in conds.iter().enumerate() {
                    if i == 0 {
                        out.push(format!("{} {}", IF_SP[sp[0] % 2], cond_text(c)));
                    } else {
                        out.push(format!("{} {}", ELIF_SP[sp[i % 6] % 3], cond_text(c)));
                    }
                    render(&bodies[i].as_array().unwrap().clone(), out);
                }
                if let Some(e) = s["else"].as_array() {
                    out.push(ELSE_SP[sp[4] % 2].to_string());
                    render(e, out);
                }
                out.push(ENDIF_SP[sp[5] % 5].to_string());
            }
            "callg" => {
                let id = s["id"].as_u64().unwrap();
                out.push(format!("gc{} = g {}", id, id));
            }
            "while" => {
                let id = s["id"].as_u64().unwrap();
                if s["once"].as_bool().unwrap_or(false) {
                    out.push(format!("w{} = is_defined n{}", id, id));
                    out.push(format!("w{} = not ${{w{}}}", id, id));
                    out.push(format!("n{} = set 1", id));
                } else {
                    out.push(format!("w{} = set true", id));
                }
                out.push(format!("x{} = set {}", id, s["twice"]));
                out.push(format!("{} ${{w{}}}", WHILE_SP[sp[0] % 2], id));
                render(&s["body"].as_array().unwrap().clone(), out);
                out.push(format!("w{} = set ${{x{}}}", id, id));
                out.push(format!("x{} = set false", id));
                out.push(ENDWHILE_SP[sp[1] % 4].to_string());
            }
            "for" => {
                let id = s["id"].as_u64().unwrap();
                out.push(format!("h{} = range 0 {}", id, s["n"]));
                out.push(format!("{} i{} in ${{h{}}}", FOR_SP[sp[0] % 2], id, id));
                out.push(format!("trace = set \"${{trace}} f{}:${{i{}}}\"", id, id));
                render(&s["body"].as_array().unwrap().clone(), out);
                out.push(ENDFOR_SP[sp[1] % 3].to_string());
                out.push(format!("release ${{h{}}}", id));
                out.push(format!("h{} = set done", id));
            }
            _ => {}
        }
    }
}

fn truthy(v: Option<&String>) -> bool {
    match v {
        None => false,
        Some(s) => {
            let l = s.to_lowercase();
            !(l.is_empty() || l == "0" || l == "false" || l == "no")
        }
    }
}

/// the value of `a op b op c` under the statement's rule: a conjunction of disjunctions
fn and_of_ors(vals: &[bool], ops: &[&str]) -> bool {
    let mut total = true;
    let mut cur = vals[0];
    for (i, op) in ops.iter().enumerate() {
        if *op == "and" {
            total = total && cur;
            cur = vals[i + 1];
        } else {
            cur = cur || vals[i + 1];
        }
    }
    total && cur
}

fn eval_cond(c: &Value, vars: &mut BTreeMap<String, String>) -> bool {
    if let Some(nx) = c["nx"].as_array() {
        let (a, b) = (nx[0].as_bool().unwrap(), nx[1].as_bool().unwrap());
        return !and_of_ors(&[a, b], &[c["op"].as_str().unwrap()]);
    }
    if let Some(cx) = c["cx"].as_array() {
        let v: Vec<bool> = cx.iter().map(|x| x.as_bool().unwrap()).collect();
        let ops: Vec<&str> = c["ops"].as_array().unwrap().iter().map(|x| x.as_str().unwrap()).collect();
        if c["grp"].as_bool().unwrap_or(false) {
            let g = and_of_ors(&[v[1], v[2]], &[ops[1]]);
            return and_of_ors(&[v[0], g], &[ops[0]]);
        }
        return and_of_ors(&v, &ops);
    }
    if let Some(b) = c["lit"].as_bool() {
        b
    } else if let Some(id) = c["probe"].as_u64() {
        let t = vars.get("trace").cloned().unwrap_or_default();
        vars.insert("trace".to_string(), format!("{} p{}", t, id));
        c["val"].as_bool().unwrap_or(false)
    } else {
        truthy(vars.get(c["var"].as_str().unwrap()))
    }
}

pub fn interp(block: &Vec<Value>, vars: &mut BTreeMap<String, String>, steps: &mut usize) {
    interp_ret(block, vars, steps);
}

/// Some(v) = a `return` was executed (v = returned value, if any)
pub fn interp_ret(block: &Vec<Value>, vars: &mut BTreeMap<String, String>, steps: &mut usize) -> Option<Option<String>> {
    for s in block {
        *steps += 1;
        if *steps > 20000 {
            return None;
        }
        match s["k"].as_str().unwrap() {
            "ret" => return Some(s["val"].as_str().map(|x| x.to_string())),
            "mark" => {
                let t = vars.get("trace").cloned().unwrap_or_default();
                vars.insert("trace".to_string(), format!("{} m{}", t, s["id"]));
            }
            "assign" => {
                vars.insert(s["var"].as_str().unwrap().to_string(), s["val"].to_string());
            }
            "callg" => {
                // g is not scoped: its argument is bound in the shared variables, it leaves a mark and returns a value
                let id = s["id"].as_u64().unwrap();
                vars.remove(&format!("gc{}", id));
                vars.insert("1".to_string(), id.to_string());
                let t = vars.get("trace").cloned().unwrap_or_default();
                vars.insert("trace".to_string(), format!("{} g:{}", t, id));
                vars.insert(format!("gc{}", id), format!("gv{}", id));
            }
            "if" => {
                let conds = s["conds"].as_array().unwrap();
                let bodies = s["bodies"].as_array().unwrap();
                let mut done = false;
                for (i, c) in conds.iter().enumerate() {
                    if eval_cond(c, vars) {
                        if let Some(rv) = interp_ret(&bodies[i].as_array().unwrap().clone(), vars, steps) {
                            return Some(rv);
                        }
                        done = true;
                        break;
                    }
                }
                if !done {
                    if let Some(e) = s["else"].as_array() {
                        if let Some(rv) = interp_ret(e, vars, steps) {
                            return Some(rv);
                        }
                    }
                }
            }
            "while" => {
                let id = s["id"].as_u64().unwrap();
                if s["once"].as_bool().unwrap_or(false) {
                    let first = !vars.contains_key(&format!("n{}", id));
                    vars.insert(format!("w{}", id), first.to_string());
                    vars.insert(format!("n{}", id), "1".to_string());
                } else {
                    vars.insert(format!("w{}", id), "true".to_string());
                }
                vars.insert(format!("x{}", id), s["twice"].to_string());
                while truthy(vars.get(&format!("w{}", id))) {
                    if let Some(rv) = interp_ret(&s["body"].as_array().unwrap().clone(), vars, steps) {
                        return Some(rv);
                    }
                    let x = vars.get(&format!("x{}", id)).cloned().unwrap_or_default();
                    vars.insert(format!("w{}", id), x);
                    vars.insert(format!("x{}", id), "false".to_string());
                    if *steps > 20000 {
                        return None;
                    }
                }
            }
            "for" => {
                let id = s["id"].as_u64().unwrap();
                let n = s["n"].as_u64().unwrap();
                for i in 0..n {
                    vars.insert(format!("i{}", id), i.to_string());
                    let t = vars.get("trace").cloned().unwrap_or_default();
                    vars.insert("trace".to_string(), format!("{} f{}:{}", t, id, i));
                    if let Some(rv) = interp_ret(&s["body"].as_array().unwrap().clone(), vars, steps) {
                        return Some(rv);
                    }
                }
                vars.insert(format!("h{}", id), "done".to_string());
            }
            _ => {}
        }
    }
    None
}

pub fn run(input: &Value) -> Option<Value> {
    run_inner(input).map(|mut d| {
        d["class"] = json!(class_of(input));
        d
    })
}

fn run_inner(input: &Value) -> Option<Value> {
    if input["kind"].as_str() == Some("libif") {
        return run_libif(input);
    }
    let prog = input["prog"].as_array()?.clone();
    let mut lines = vec![];
    render(&prog, &mut lines);
    let script = crate::deco::decorate(&lines, input["deco"].as_u64().unwrap_or(0)).join("\n");
    let mut vars = BTreeMap::new();
    let mut steps = 0;
    let mut context = Context::new();
    duckscriptsdk::load(&mut context.commands).ok()?;
    context.commands.set(Box::new(Probe {})).ok()?;
    if let Some(pre) = input["prelude"].as_array() {
        if !pre.is_empty() {
            let mut pl = vec![];
            render(pre, &mut pl);
            interp(pre, &mut vars, &mut steps);
            context = match runner::run_script(&pl.join("\n"), context, None) {
                Ok(c) => c,
                Err(_) => return None,
            };
        }
    }
    interp(&prog, &mut vars, &mut steps);
    if steps > 20000 {
        return None;
    }
    // with a history the real run may be misdirected into a loop: stop it through the halt flag after a while
    let env = if input["prelude"].is_null() {
        None
    } else {
        let halt = std::sync::Arc::new(std::sync::atomic::AtomicBool::new(false));
        let h2 = halt.clone();
        std::thread::spawn(move || {
            std::thread::sleep(std::time::Duration::from_millis(300));
            h2.store(true, std::sync::atomic::Ordering::SeqCst);
        });
        Some(duckscript::types::env::Env::new(None, None, Some(halt)))
    };
    match runner::run_script(&script, context, env) {
        Ok(ctx) => {
            let real: BTreeMap<String, String> = ctx.variables.iter().filter(|(k, _)| !k.starts_with('h')).map(|(k, v)| (k.clone(), v.clone())).collect();
            let vars: BTreeMap<String, String> = vars.into_iter().filter(|(k, _)| !k.starts_with('h')).collect();
            if real != vars {
                Some(json!({"script": script, "what": "trace / final variables differ from the tree-walking interpreter", "model": vars, "real": real}))
            } else {
                None
            }
        }
        Err(e) => Some(json!({"script": script, "error": e.to_string(), "model": vars})),
    }
}
