//! C09: a command wrapped in if / not / while / an alias receives the same argument values as a direct call.
//! Values are drawn from the safe domain (the classes the property already lists as known weaknesses -
//! ${..}-like text, line breaks, '#', embedded double quotes - are excluded).
use crate::rec::Record;
use crate::rng::Rng;
use duckscript::runner;
use duckscript::types::runtime::Context;
use serde_json::{json, Value};
use std::sync::{Arc, Mutex};

// (U+2028 / U+2029 / U+0085 are no line breaks for the parser: values holding them must come through unchanged)
const VALS: [&str; 50] = ["record", "dflt", "\u{1b}[0m", "a\u{7f}b", "\u{1}", "", " ", "   ", "a", "a b", " a ", "x=y", "\\", "a\\b", "é", "0", "false", "-r", "two  spaces", "\t", "a\t", "\ta", "a\tb", "\u{a0}", "=a", "=", "a=", ":a", "!a", "a b\\", "C:\\my dir\\", "x\\",
    "a\u{2028}b", "a\u{2029}b c", "x\u{85}y", "a\u{b}b", "\u{feff}a b", "100%$5", "a$%b", "%$", "$$", "%%x",
    // apostrophes are ordinary characters; a double quote inside a value without white space is written back as it is
    "'a'", "'tis", "'", "it's", "'two words'", "5\"x", "a\"b\"c", "x\""];

pub fn gen(r: &mut Rng) -> Value {
    if r.chance(1, 5) {
        // a user-defined function used as the condition: the branch is decided by what a direct call returns
        let vals = ["true", "false", "yes", "0", "x", ""];
        return json!({"fn_cond": {"body_val": r.pick(&vals), "ret": r.pick(&["value", "bare", "fall"]), "ret_val": r.pick(&vals), "nested_if": r.chance(1, 2)}, "args": [], "wrapper": 0});
    }
    let n = r.below(4);
    let args: Vec<String> = (0..n).map(|_| r.pick(&VALS).to_string()).collect();
    json!({"args": args, "wrapper": r.below(7)})
}

fn quote(s: &str) -> String {
    let mut o = String::from("\"");
    for c in s.chars() {
        match c {
            '\\' => o.push_str("\\\\"),
            '"' => o.push_str("\\\""),
            '\n' => o.push_str("\\n"),
            '\r' => o.push_str("\\r"),
            '\t' => o.push_str("\\t"),
            c => o.push(c),
        }
    }
    o.push('"');
    o
}

/// classes the property statement already names as known weaknesses of the re-serialise-and-parse path
pub fn class_of(input: &Value) -> &'static str {
    let args: Vec<String> = input["args"].as_array().map(|a| a.iter().map(|v| v.as_str().unwrap_or("").to_string()).collect()).unwrap_or_default();
    if args.iter().any(|a| a.contains("${") || a.contains("%{")) { "argument-containing-variable-reference-text" }
    else if args.iter().any(|a| a.contains('\n') || a.contains('\r')) { "argument-containing-line-break" }
    else if args.iter().any(|a| a.contains('#')) { "argument-containing-hash" }
    // (a double quote inside a value that has no white space and does not start with one is written back as it is
    // and comes through unchanged: only the other values with a double quote are the listed weakness)
    else if args.iter().any(|a| a.contains('"') && (a.starts_with('"') || a.chars().any(char::is_whitespace))) { "argument-containing-double-quote" }
    else if args.first().map(|a| a.starts_with('=')).unwrap_or(false) { "first-argument-starting-with-equals-sign" }
    else { "other" }
}

pub fn run(input: &Value) -> Option<Value> {
    run_inner(input).map(|mut d| {
        d["class"] = json!(class_of(input));
        d
    })
}

fn truthy(v: &Option<String>) -> bool {
    match v {
        None => false,
        Some(s) => {
            let l = s.to_lowercase();
            !(l.is_empty() || l == "0" || l == "false" || l == "no")
        }
    }
}

fn run_fn_cond(f: &Value) -> Option<Value> {
    let body_val = f["body_val"].as_str()?;
    let ret = f["ret"].as_str()?;
    let ret_val = f["ret_val"].as_str()?;
    // the function records the argument it was given at every call: all consumers must hand it over like a direct call
    let mut lines = vec!["fn probe_fn".to_string(), format!("inner = set \"{}\"", body_val), "seen = set \"${seen}|${1}\"".to_string()];
    if f["nested_if"].as_bool().unwrap_or(false) {
        lines.push("if true".to_string());
    }
    match ret {
        "value" => lines.push(format!("return \"{}\"", ret_val)),
        "bare" => lines.push("return".to_string()),
        _ => lines.push("other = set \"x\"".to_string()),
    }
    if f["nested_if"].as_bool().unwrap_or(false) {
        lines.push("end".to_string());
    }
    lines.push("end".to_string());
    lines.push("direct = probe_fn a1".to_string());
    lines.push("if probe_fn a2\nvia_if = set yes\nelse\nvia_if = set no\nend".to_string());
    lines.push("via_not = not probe_fn a3".to_string());
    lines.push("if false\nvia_elseif = set skipped\nelseif probe_fn a4\nvia_elseif = set yes\nelse\nvia_elseif = set no\nend".to_string());
    lines.push("via_while = set no\nwhile probe_fn a5\nvia_while = set yes\ngoto :wend\nend\n:wend".to_string());
    // wrappers nested in wrappers: `not <function>` as the condition of if / while
    lines.push("if not probe_fn a6\nvia_if_not = set yes\nelse\nvia_if_not = set no\nend".to_string());
    lines.push("via_while_not = set no\nwhile not probe_fn a7\nvia_while_not = set yes\ngoto :wend2\nend\n:wend2".to_string());
    let script = lines.join("\n");
    let mut context = Context::new();
    duckscriptsdk::load(&mut context.commands).ok()?;
    match runner::run_script(&script, context, None) {
        Ok(ctx) => {
            let direct = ctx.variables.get("direct").cloned();
            let want = truthy(&direct);
            let got_if = ctx.variables.get("via_if").cloned();
            let got_not = ctx.variables.get("via_not").cloned();
            let yn = Some(if want { "yes" } else { "no" });
            let got_elseif = ctx.variables.get("via_elseif").cloned();
            let got_while = ctx.variables.get("via_while").cloned();
            let seen = ctx.variables.get("seen").cloned();
            let ny = Some(if want { "no" } else { "yes" });
            let got_if_not = ctx.variables.get("via_if_not").cloned();
            let got_while_not = ctx.variables.get("via_while_not").cloned();
            if got_if_not.as_deref() != ny || got_while_not.as_deref() != ny {
                return Some(json!({"script": script, "what": "`not <function>` used as the condition of if / while decides differently from the direct call", "direct_output": direct, "via_if_not": got_if_not, "via_while_not": got_while_not}));
            }
            if got_if.as_deref() != yn || got_not != Some((!want).to_string()) || got_elseif.as_deref() != yn || got_while.as_deref() != yn {
                Some(json!({"script": script, "what": "the branch taken differs from the one determined by the direct call's output", "direct_output": direct, "via_if": got_if, "via_not": got_not, "via_elseif": got_elseif, "via_while": got_while}))
            } else if seen.as_deref() != Some("|a1|a2|a3|a4|a5|a6|a7") {
                Some(json!({"script": script, "what": "a function used as a condition was not called once per consumer with the argument written", "seen": seen}))
            } else {
                None
            }
        }
        Err(e) => Some(json!({"script": script, "error": e.to_string()})),
    }
}

fn run_inner(input: &Value) -> Option<Value> {
    if !input["fn_cond"].is_null() {
        return run_fn_cond(&input["fn_cond"]);
    }
    let args: Vec<String> = input["args"].as_array()?.iter().map(|v| v.as_str().unwrap().to_string()).collect();
    let wrapper = input["wrapper"].as_u64()?;
    let calls = Arc::new(Mutex::new(vec![]));
    let mut context = Context::new();
    duckscriptsdk::load(&mut context.commands).ok()?;
    context.commands.set(Box::new(Record { name: "record".to_string(), calls: calls.clone(), output: Some("true".to_string()) })).ok()?;
    let written: Vec<String> = args.iter().map(|a| quote(a).replace("${", "\\${")).collect();
    let call = format!("record {}", written.join(" "));
    let script = match wrapper {
        0 => format!("out = not {}", call),
        1 => format!("if {}\nout = set yes\nend", call),
        2 => format!("alias rec2 record\nout = rec2 {}", written.join(" ")),
        3 => format!("if false\nskipped = set yes\nelseif {}\nout = set yes\nend", call),
        4 => format!("while {}\nout = set yes\ngoto :wend\nend\n:wend", call),
        // the eval command runs its words as one statement
        5 => format!("out = eval {}", call),
        // an alias with a stored argument of its own: the call's arguments follow it
        _ => format!("alias rec3 record dflt\nout = rec3 {}", written.join(" ")),
    };
    let args: Vec<String> = if wrapper >= 6 { let mut a = vec!["dflt".to_string()]; a.extend(args); a } else { args };
    match runner::run_script(&script, context, None) {
        Ok(_) => {
            let got = calls.lock().unwrap().clone();
            if got.len() != 1 || got[0] != args {
                Some(json!({"script": script, "expected": args, "real": got}))
            } else {
                None
            }
        }
        Err(e) => Some(json!({"script": script, "error": e.to_string()})),
    }
}
