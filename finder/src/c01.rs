//! C01 / C08: documented renderings parse back to the instruction; malformed lines are rejected in
//! place with the matching error kind; parsing random text never panics.
use crate::rng::Rng;
use duckscript::parser;
use duckscript::types::error::ScriptError;
use duckscript::types::instruction::InstructionType;
use serde_json::{json, Value};

const NAME_CHARS: [&str; 8] = ["a", "b", "Z", "_", "1", "é", ":", "-"];
// includes characters that look like white space but are not (U+FEFF, U+200B) and one that is (U+00A0)
const ARG_CHARS: [&str; 24] = ["\u{3000}", "\u{2028}", "0", "'", "`", "a", "b", " ", "#", "\"", "\\", "\n", "\r", "\t", "=", "$", "{", "}", "%", "é", ":", "\u{feff}", "\u{200b}", "\u{a0}"];

fn gen_name(r: &mut Rng, first_ok: bool) -> String {
    loop {
        let n = 1 + r.below(4);
        let s: String = (0..n).map(|_| r.pick(&NAME_CHARS).to_string()).collect();
        if first_ok || !(s.starts_with(':') || s.starts_with('!') || s.starts_with('#')) {
            return s;
        }
    }
}

fn gen_instr(r: &mut Rng) -> Value {
    let label = if r.chance(1, 3) { json!(gen_name(r, true)) } else { Value::Null };
    let output = if r.chance(1, 2) { json!(gen_name(r, false)) } else { Value::Null };
    let command = if r.chance(3, 4) { json!(gen_name(r, false)) } else { Value::Null };
    let mut args = vec![];
    if !command.is_null() {
        for _ in 0..r.below(4) {
            let n = r.below(5);
            let s: String = (0..n).map(|_| r.pick(&ARG_CHARS).to_string()).collect();
            args.push(json!({"val": s, "quote": r.chance(1, 2), "raw_ws": r.chance(1, 2), "sp": 1 + r.below(3)}));
        }
    }
    json!({"label": label, "output": output, "command": command, "args": args,
           "lead": r.below(3), "sp1": 1 + r.below(2), "sp2": r.below(3), "sp3": r.below(3), "tail": r.below(3),
           "comment": if r.chance(1, 3) { json!(" c # \"x") } else { Value::Null }})
}

pub fn gen(r: &mut Rng) -> Value {
    match r.below(10) {
        0 => {
            // random text: totality
            let n = r.below(12);
            let pool = ["a", " ", "\"", "\\", "#", "=", ":", "!", "\n", "$", "{", "n", "include_files", "print"];
            let s: String = (0..n).map(|_| r.pick(&pool).to_string()).collect();
            json!({"kind": "random", "text": s})
        }
        1 | 2 => {
            let bad = ["x \"abc", "x \"a\\q\"", "x a\\", "\"lbl", ":\"l x", "o\\ut = x", "out = \"cmd\"", "!", "!nope x", "x \\$a", "a\\b = x", "!  ", "!Print x", "x \"a\\", ":l \"o = x",
                "!print \"abc", "!print a\\q", "!include_files \"x", "!print x \\$a", "!print a\\",
                // malformed part directly after a closing quote; pre-processor lines with characters outside ASCII
                "x \"a\"\"", "x \"text\"\\", "x \"a\" \"b\"\\q", "!print \"日本語のテキストです", "!définir ключ значение данные", "!print é \\q", "!нет"];
            let n_before = r.below(3);
            let lead = ["", "", " ", "\t", "   ", " \t ", "\u{a0}", "\u{3000} ", "\u{b}"];
            let eol = ["\n", "\n", "\r\n"];
            json!({"kind": "malformed", "bad": r.pick(&bad), "before": n_before, "lead": r.pick(&lead), "trail": r.pick(&lead), "eol": r.pick(&eol)})
        }
        _ => {
            let n = 1 + r.below(3);
            let lines: Vec<Value> = (0..n).map(|_| if r.chance(1, 6) { json!({"blank": r.chance(1, 2), "blank_kind": r.below(6)}) } else { gen_instr(r) }).collect();
            json!({"kind": "script", "lines": lines, "eol": r.pick(&["\n", "\n", "\r\n"])})
        }
    }
}

fn sp(n: u64) -> String {
    " ".repeat(n as usize)
}

/// can this value be written without quotes (escape-free)?
fn plain_ok(v: &str, first_arg: bool) -> bool {
    // (the only separator is the blank U+0020: other white space - tab, U+00A0, U+3000 .. - may stand unquoted INSIDE a
    // value; at its ends it would be trimmed with the line)
    let ends_ok = !v.chars().next().map(|c| c.is_whitespace()).unwrap_or(false) && !v.chars().last().map(|c| c.is_whitespace()).unwrap_or(false);
    !v.is_empty() && ends_ok && !v.starts_with('"') && !(first_arg && v.starts_with('=')) && v.chars().all(|c| c != '\\' && c != ' ' && c != '#' && c != '\n' && c != '\r')
}

fn render_arg(a: &Value, first: bool) -> String {
    let v = a["val"].as_str().unwrap();
    let quote = a["quote"].as_bool().unwrap() || !plain_ok(v, first);
    if !quote {
        return v.to_string();
    }
    let raw_ws = a["raw_ws"].as_bool().unwrap();
    let mut s = String::from("\"");
    for c in v.chars() {
        match c {
            '\\' => s.push_str("\\\\"),
            '"' => s.push_str("\\\""),
            '\n' => s.push_str("\\n"),
            '\r' => {
                if raw_ws { s.push('\r') } else { s.push_str("\\r") }
            }
            '\t' => {
                if raw_ws { s.push('\t') } else { s.push_str("\\t") }
            }
            c => s.push(c),
        }
    }
    s.push('"');
    s
}

fn render_line(i: &Value) -> String {
    if !i["blank"].is_null() {
        return match i["blank_kind"].as_u64().unwrap_or(0) {
            1 => "#!/usr/bin/env duck".to_string(),
            2 => "#!".to_string(),
            3 => "#".to_string(),
            _ => if i["blank"].as_bool().unwrap() { "   ".to_string() } else { "  # just a comment".to_string() },
        };
    }
    let mut s = sp(i["lead"].as_u64().unwrap());
    if let Some(l) = i["label"].as_str() {
        s.push(':');
        s.push_str(l);
        s.push_str(&sp(i["sp1"].as_u64().unwrap()));
    }
    if let Some(o) = i["output"].as_str() {
        s.push_str(o);
        s.push_str(&sp(i["sp2"].as_u64().unwrap()));
        s.push('=');
        s.push_str(&sp(i["sp3"].as_u64().unwrap()));
    }
    if let Some(c) = i["command"].as_str() {
        s.push_str(c);
    }
    let mut first = i["output"].is_null();
    for a in i["args"].as_array().unwrap() {
        s.push_str(&sp(a["sp"].as_u64().unwrap()));
        s.push_str(&render_arg(a, first));
        first = false;
    }
    if let Some(c) = i["comment"].as_str() {
        s.push_str(&sp(1 + i["tail"].as_u64().unwrap()));
        s.push('#');
        s.push_str(c);
    } else {
        s.push_str(&sp(i["tail"].as_u64().unwrap()));
    }
    // a raw carriage return as last character of the line would be eaten by the line splitter
    s
}

fn in_domain(i: &Value) -> bool {
    if !i["blank"].is_null() {
        return true;
    }
    // at least one of label / output / command; the rendered line must not end in a raw CR/tab inside an
    // open position (always closed by a quote here), so every generated instruction is in the domain
    !(i["label"].is_null() && i["output"].is_null() && i["command"].is_null())
}

pub fn run(input: &Value) -> Option<Value> {
    match input["kind"].as_str()? {
        "random" => {
            let _ = parser::parse_text(input["text"].as_str()?);
            None
        }
        "malformed" => {
            let bad = input["bad"].as_str()?;
            let before = input["before"].as_u64()? as usize;
            let eol = input["eol"].as_str().unwrap_or("\n");
            let mut text = String::new();
            for k in 0..before {
                text.push_str(&format!("ok{} = set {}{}", k, k, eol));
            }
            text.push_str(input["lead"].as_str().unwrap_or(""));
            text.push_str(bad);
            text.push_str(input["trail"].as_str().unwrap_or(""));
            text.push_str(eol);
            text.push_str("after = set 1\n");
            let want_line = before + 1;
            let kind = |e: &ScriptError| -> (&'static str, Option<usize>) {
                match e {
                    ScriptError::MissingEndQuotes(m) => ("MissingEndQuotes", m.line),
                    ScriptError::ControlWithoutValidValue(m) => ("ControlWithoutValidValue", m.line),
                    ScriptError::InvalidQuotesLocation(m) => ("InvalidQuotesLocation", m.line),
                    ScriptError::InvalidControlLocation(m) => ("InvalidControlLocation", m.line),
                    ScriptError::PreProcessNoCommandFound(m) => ("PreProcessNoCommandFound", m.line),
                    ScriptError::UnknownPreProcessorCommand(m) => ("UnknownPreProcessorCommand", m.line),
                    _ => ("other", None),
                }
            };
            let expect = match bad {
                "x \"abc" | "!print \"abc" | "!include_files \"x" | "x \"a\"\"" | "!print \"日本語のテキストです" => "MissingEndQuotes",
                "x \"a\\q\"" | "x a\\" | "x \\$a" | "x \"a\\" | "!print a\\q" | "!print x \\$a" | "!print a\\" | "x \"text\"\\" | "x \"a\" \"b\"\\q" | "!print é \\q" => "ControlWithoutValidValue",
                "\"lbl" | ":\"l x" | "out = \"cmd\"" | ":l \"o = x" => "InvalidQuotesLocation",
                "o\\ut = x" | "a\\b = x" => "InvalidControlLocation",
                "!" | "!  " => "PreProcessNoCommandFound",
                _ => "UnknownPreProcessorCommand",
            };
            match parser::parse_text(&text) {
                Ok(_) => Some(json!({"text": text, "what": "malformed line accepted", "expected": expect})),
                Err(e) => {
                    let (k, l) = kind(&e);
                    if k != expect || l != Some(want_line) {
                        Some(json!({"text": text, "what": "wrong error kind or line", "expected": [expect, want_line], "real": [k, l]}))
                    } else {
                        None
                    }
                }
            }
        }
        "script" => {
            let lines = input["lines"].as_array()?;
            if !lines.iter().all(in_domain) {
                return None;
            }
            let text: Vec<String> = lines.iter().map(render_line).collect();
            let text = text.join(input["eol"].as_str().unwrap_or("\n"));
            match parser::parse_text(&text) {
                Err(e) => Some(json!({"text": text, "what": "documented rendering rejected", "error": e.to_string()})),
                Ok(instrs) => {
                    if instrs.len() != lines.len() {
                        return Some(json!({"text": text, "what": "not one instruction per line", "n": instrs.len()}));
                    }
                    for (k, (ins, want)) in instrs.iter().zip(lines.iter()).enumerate() {
                        if ins.meta_info.line != Some(k + 1) {
                            return Some(json!({"text": text, "what": "wrong line number", "index": k, "real": ins.meta_info.line}));
                        }
                        match &ins.instruction_type {
                            InstructionType::Empty => {
                                if want["blank"].is_null() {
                                    return Some(json!({"text": text, "what": "instruction parsed as empty", "index": k}));
                                }
                            }
                            InstructionType::Script(s) => {
                                if !want["blank"].is_null() {
                                    return Some(json!({"text": text, "what": "blank/comment line is not empty", "index": k}));
                                }
                                let wl = want["label"].as_str().map(|l| format!(":{}", l));
                                let wo = want["output"].as_str().map(|x| x.to_string());
                                let wc = want["command"].as_str().map(|x| x.to_string());
                                let wa: Vec<String> = want["args"].as_array().unwrap().iter().map(|a| a["val"].as_str().unwrap().to_string()).collect();
                                let ga = s.arguments.clone().unwrap_or_default();
                                if s.label != wl || s.output != wo || s.command != wc || ga != wa {
                                    return Some(json!({"text": text, "what": "parsed instruction differs", "index": k,
                                        "expected": {"label": wl, "output": wo, "command": wc, "args": wa},
                                        "real": {"label": s.label, "output": s.output, "command": s.command, "args": ga}}));
                                }
                            }
                            _ => return Some(json!({"text": text, "what": "unexpected pre-process instruction", "index": k})),
                        }
                    }
                    None
                }
            }
        }
        _ => None,
    }
}
