//! C12: collections behind handles against vectors / maps / sets per live handle.
use crate::rng::Rng;
use duckscript::runner;
use duckscript::types::runtime::Context;
use serde_json::{json, Value};
use std::collections::{BTreeMap, BTreeSet};

#[derive(Clone, Debug, PartialEq)]
enum Coll {
    Arr(Vec<String>),
    Map(BTreeMap<String, String>),
    Set(BTreeSet<String>),
}

const VALS: [&str; 14] = ["a", "b", "x y", "", "1", "é", "=", "handle:x", "true", "a,b", "007", "+5", "-0", "1e3"];

pub fn gen(r: &mut Rng) -> Value {
    if r.chance(1, 6) {
        // nested collections (handles stored as values) and release with / without --recursive
        let n = 2 + r.below(5);
        let nodes: Vec<Value> = (0..n).map(|i| json!({"kind": r.pick(&["array", "map", "set"]), "parent": if i == 0 { 0 } else { r.below(i) }})).collect();
        return json!({"nest": nodes, "recursive": r.chance(2, 3), "root": r.below(n), "flag": r.pick(&["-r", "--recursive"])});
    }
    if r.chance(1, 3) {
        // focused history: ONE live collection of one kind, every operation of that kind over a tiny key / value pool,
        // so that each write is soon followed by every query of the same key / value (empty values included)
        let kind = r.below(3);
        let vals = ["", "a", "x y", "false", "0", "é", "日本"];
        let mut ops = vec![match kind { 0 => json!({"op": "array", "slot": 0, "vals": [r.pick(&vals), r.pick(&vals)]}), 1 => json!({"op": "map", "slot": 0}), _ => json!({"op": "set_new", "slot": 0, "vals": [r.pick(&vals)]}) }];
        for _ in 0..(3 + r.below(9)) {
            let v = r.pick(&vals).to_string();
            let k = r.pick(&["k1", "k2"]).to_string();
            let i = r.below(3);
            ops.push(match kind {
                0 => match r.below(11) {
                    0 | 1 => json!({"op": "array_push", "slot": 0, "vals": [v]}),
                    2 => json!({"op": "array_pop", "slot": 0}),
                    3 => json!({"op": "array_get", "slot": 0, "i": i}),
                    4 => json!({"op": "array_set", "slot": 0, "i": i, "v": v}),
                    5 => json!({"op": "array_remove", "slot": 0, "i": i}),
                    6 => json!({"op": "array_length", "slot": 0}),
                    7 => json!({"op": "array_contains", "slot": 0, "v": v}),
                    8 => json!({"op": "array_is_empty", "slot": 0}),
                    9 => json!({"op": "array_join", "slot": 0, "v": r.pick(&[",", "é", "", "→ "])}),
                    _ => json!({"op": "array_clear", "slot": 0}),
                },
                1 => match r.below(10) {
                    0 | 1 | 2 => json!({"op": "map_put", "slot": 0, "k": k, "v": v}),
                    3 => json!({"op": "map_get", "slot": 0, "k": k}),
                    4 => json!({"op": "map_remove", "slot": 0, "k": k}),
                    5 => json!({"op": "map_size", "slot": 0}),
                    6 | 7 => json!({"op": "map_contains_key", "slot": 0, "k": k}),
                    8 => json!({"op": "map_contains_value", "slot": 0, "v": v}),
                    _ => json!({"op": "map_is_empty", "slot": 0}),
                },
                _ => match r.below(7) {
                    0 | 1 => json!({"op": "set_put", "slot": 0, "vals": [v]}),
                    2 | 3 => json!({"op": "set_contains", "slot": 0, "v": v}),
                    4 => json!({"op": "set_remove", "slot": 0, "v": v}),
                    5 => json!({"op": "set_size", "slot": 0}),
                    _ => json!({"op": "set_is_empty", "slot": 0}),
                },
            });
        }
        return json!({ "ops": ops });
    }
    let n = 3 + r.below(10);
    let mut ops = vec![];
    for _ in 0..n {
        let h = r.below(4); // handle slot (may be unset / released / wrong kind)
        let v = r.pick(&VALS).to_string();
        let k = r.pick(&["k1", "k2", "a"]).to_string();
        let i = r.below(4);
        let op = match r.below(33) {
            26 => if r.chance(1, 3) { json!({"op": "array_concat", "slot": h, "other": r.below(4), "dst": r.below(4)}) } else if r.chance(1, 2) { json!({"op": "set_from_array", "slot": h, "dst": r.below(4)}) } else { json!({"op": "array_join", "slot": h, "v": r.pick(&[",", "", ", ", "-", "é", "→"])}) },
            27 => json!({"op": "array_contains", "slot": h, "v": v}),
            28 => json!({"op": "array_is_empty", "slot": h}),
            29 => json!({"op": "map_contains_key", "slot": h, "k": k}),
            30 => json!({"op": "map_contains_value", "slot": h, "v": v}),
            31 => json!({"op": "map_is_empty", "slot": h}),
            32 => json!({"op": "set_is_empty", "slot": h}),
            0 => json!({"op": "array", "slot": h, "vals": [v, k]}),
            1 => json!({"op": "map", "slot": h}),
            2 => json!({"op": "set_new", "slot": h, "vals": [v]}),
            3 | 4 => json!({"op": "array_push", "slot": h, "vals": [v]}),
            5 => json!({"op": "array_pop", "slot": h}),
            6 => json!({"op": "array_get", "slot": h, "i": i}),
            7 => json!({"op": "array_set", "slot": h, "i": i, "v": v}),
            8 => json!({"op": "array_remove", "slot": h, "i": i}),
            9 => json!({"op": "array_clear", "slot": h}),
            10 => json!({"op": "array_length", "slot": h}),
            11 | 12 => json!({"op": "map_put", "slot": h, "k": k, "v": v}),
            13 => json!({"op": "map_get", "slot": h, "k": k}),
            14 => json!({"op": "map_remove", "slot": h, "k": k}),
            15 => json!({"op": "map_size", "slot": h}),
            16 => json!({"op": "map_clear", "slot": h}),
            17 => json!({"op": "set_put", "slot": h, "vals": [v]}),
            18 => { let v2 = r.pick(&VALS).to_string(); let v3 = r.pick(&VALS).to_string(); json!({"op": "set_put", "slot": h, "vals": [v, v2, v3]}) }
            19 => json!({"op": "set_contains", "slot": h, "v": v}),
            20 => json!({"op": "set_remove", "slot": h, "v": v}),
            21 => json!({"op": "set_size", "slot": h}),
            22 => json!({"op": "is_array", "slot": h}),
            23 => json!({"op": "is_map", "slot": h}),
            24 => json!({"op": "is_set", "slot": h}),
            _ => json!({"op": "release", "slot": h}),
        };
        ops.push(op);
    }
    json!({ "ops": ops })
}

fn q(s: &str) -> String {
    format!("\"{}\"", s)
}

fn run_nest(input: &Value) -> Option<Value> {
    let nodes = input["nest"].as_array()?;
    let n = nodes.len();
    let parent: Vec<usize> = nodes.iter().map(|x| x["parent"].as_u64().unwrap_or(0) as usize).collect();
    let mut script = String::new();
    for i in (0..n).rev() {
        let kids: Vec<usize> = (i + 1..n).filter(|&c| parent[c] == i).collect();
        match nodes[i]["kind"].as_str()? {
            "array" => {
                script.push_str(&format!("n{} = array x", i));
                for c in &kids {
                    script.push_str(&format!(" ${{n{}}}", c));
                }
                script.push('\n');
            }
            "set" => {
                script.push_str(&format!("n{} = set_new x", i));
                for c in &kids {
                    script.push_str(&format!(" ${{n{}}}", c));
                }
                script.push('\n');
            }
            _ => {
                script.push_str(&format!("n{} = map\nmap_put ${{n{}}} plain x\n", i, i));
                for c in &kids {
                    script.push_str(&format!("map_put ${{n{}}} k{} ${{n{}}}\n", i, c, c));
                }
            }
        }
    }
    let root = input["root"].as_u64()? as usize;
    let recursive = input["recursive"].as_bool()?;
    script.push_str(&format!("out = release {} ${{n{}}}\n", if recursive { input["flag"].as_str()? } else { "" }, root));
    for i in 0..n {
        let q = match nodes[i]["kind"].as_str()? { "array" => "is_array", "set" => "is_set", _ => "is_map" };
        script.push_str(&format!("live{} = {} ${{n{}}}\n", i, q, i));
    }
    let mut context = Context::new();
    duckscriptsdk::load(&mut context.commands).ok()?;
    let ctx = match runner::run_script(&script, context, None) {
        Ok(c) => c,
        Err(e) => return Some(json!({"script": script, "error": e.to_string()})),
    };
    if ctx.variables.get("out").map(|x| x.as_str()) != Some("true") {
        return Some(json!({"script": script, "what": "release of a live handle did not return true", "real": ctx.variables.get("out")}));
    }
    for i in 0..n {
        // i is released iff it is the root or (recursive and) a descendant of the root
        let mut a = i;
        let mut under = a == root;
        while recursive && a != 0 && !under {
            a = parent[a];
            under = a == root;
        }
        let want = (!under).to_string();
        let got = ctx.variables.get(&format!("live{}", i)).cloned();
        if got.as_deref() != Some(want.as_str()) {
            return Some(json!({"script": script, "what": "liveness after release differs from the reference model (release removes the handle; with the recursive flag also every collection reachable through its values)", "node": i, "model_live": want, "real_live": got}));
        }
    }
    None
}

pub fn run(input: &Value) -> Option<Value> {
    if !input["nest"].is_null() {
        return run_nest(input);
    }
    let mut context = Context::new();
    duckscriptsdk::load(&mut context.commands).ok()?;
    // slot -> model collection (None = never created or released); handle names live in variables h0..h3
    let mut model: Vec<Option<Coll>> = vec![None; 4];
    for (step, op) in input["ops"].as_array()?.iter().enumerate() {
        let name = op["op"].as_str()?;
        let slot = op["slot"].as_u64()? as usize;
        let hv = format!("${{h{}}}", slot);
        let vals: Vec<String> = op["vals"].as_array().map(|a| a.iter().map(|x| x.as_str().unwrap().to_string()).collect()).unwrap_or_default();
        let v = op["v"].as_str().unwrap_or("").to_string();
        let k = op["k"].as_str().unwrap_or("").to_string();
        let i = op["i"].as_u64().unwrap_or(0) as usize;
        let qvals: Vec<String> = vals.iter().map(|x| q(x)).collect();
        // expected output: Some(text) | None (undefined) ; errors give "false"
        let err = Some("false".to_string());
        let (script, expect): (String, Option<String>) = match name {
            "array" | "map" | "set_new" => {
                // a slot that still holds a live collection is released first so that handles stay tracked
                let pre = format!("release {}\n", hv);
                model[slot] = Some(match name {
                    "array" => Coll::Arr(vals.clone()),
                    "map" => Coll::Map(BTreeMap::new()),
                    _ => Coll::Set(vals.iter().cloned().collect()),
                });
                (format!("{}h{} = {} {}\nout = set created", pre, slot, name, qvals.join(" ")), Some("created".to_string()))
            }
            "array_push" => match &mut model[slot] {
                Some(Coll::Arr(a)) => {
                    a.extend(vals.clone());
                    (format!("out = array_push {} {}", hv, qvals.join(" ")), Some("true".to_string()))
                }
                _ => (format!("out = array_push {} {}", hv, qvals.join(" ")), err.clone()),
            },
            "array_pop" => match &mut model[slot] {
                Some(Coll::Arr(a)) => (format!("out = array_pop {}", hv), a.pop()),
                _ => (format!("out = array_pop {}", hv), err.clone()),
            },
            "array_get" => match &model[slot] {
                Some(Coll::Arr(a)) => (format!("out = array_get {} {}", hv, i), a.get(i).cloned()),
                _ => (format!("out = array_get {} {}", hv, i), err.clone()),
            },
            "array_set" => match &mut model[slot] {
                Some(Coll::Arr(a)) if i < a.len() => {
                    a[i] = v.clone();
                    (format!("out = array_set {} {} {}", hv, i, q(&v)), Some("true".to_string()))
                }
                _ => (format!("out = array_set {} {} {}", hv, i, q(&v)), err.clone()),
            },
            "array_remove" => match &mut model[slot] {
                Some(Coll::Arr(a)) if i < a.len() => {
                    a.remove(i);
                    (format!("out = array_remove {} {}", hv, i), Some("true".to_string()))
                }
                _ => (format!("out = array_remove {} {}", hv, i), err.clone()),
            },
            "array_clear" => match &mut model[slot] {
                Some(Coll::Arr(a)) => {
                    a.clear();
                    (format!("out = array_clear {}", hv), Some("true".to_string()))
                }
                _ => (format!("out = array_clear {}", hv), err.clone()),
            },
            "array_length" => match &model[slot] {
                Some(Coll::Arr(a)) => (format!("out = array_length {}", hv), Some(a.len().to_string())),
                _ => (format!("out = array_length {}", hv), err.clone()),
            },
            "map_put" => match &mut model[slot] {
                Some(Coll::Map(m)) => {
                    m.insert(k.clone(), v.clone());
                    (format!("out = map_put {} {} {}", hv, k, q(&v)), Some("true".to_string()))
                }
                _ => (format!("out = map_put {} {} {}", hv, k, q(&v)), err.clone()),
            },
            "map_get" => match &model[slot] {
                Some(Coll::Map(m)) => (format!("out = map_get {} {}", hv, k), m.get(&k).cloned()),
                _ => (format!("out = map_get {} {}", hv, k), err.clone()),
            },
            "map_remove" => match &mut model[slot] {
                Some(Coll::Map(m)) => (format!("out = map_remove {} {}", hv, k), m.remove(&k)),
                _ => (format!("out = map_remove {} {}", hv, k), err.clone()),
            },
            "map_size" => match &model[slot] {
                Some(Coll::Map(m)) => (format!("out = map_size {}", hv), Some(m.len().to_string())),
                _ => (format!("out = map_size {}", hv), err.clone()),
            },
            "map_clear" => match &mut model[slot] {
                Some(Coll::Map(m)) => {
                    m.clear();
                    (format!("out = map_clear {}", hv), Some("true".to_string()))
                }
                _ => (format!("out = map_clear {}", hv), err.clone()),
            },
            "set_put" => match &mut model[slot] {
                Some(Coll::Set(s)) => {
                    s.extend(vals.clone());
                    (format!("out = set_put {} {}", hv, qvals.join(" ")), Some("true".to_string()))
                }
                _ => (format!("out = set_put {} {}", hv, qvals.join(" ")), err.clone()),
            },
            "set_contains" => match &model[slot] {
                Some(Coll::Set(s)) => (format!("out = set_contains {} {}", hv, q(&v)), Some(s.contains(&v).to_string())),
                _ => (format!("out = set_contains {} {}", hv, q(&v)), err.clone()),
            },
            "set_remove" => match &mut model[slot] {
                Some(Coll::Set(s)) => (format!("out = set_remove {} {}", hv, q(&v)), Some(s.remove(&v).to_string())),
                _ => (format!("out = set_remove {} {}", hv, q(&v)), err.clone()),
            },
            // script-implemented: a NEW set holding exactly the array's values, verbatim (checked at once through its size)
            "set_from_array" => {
                let dst = op["dst"].as_u64().unwrap_or(0) as usize;
                match model[slot].clone() {
                    Some(Coll::Arr(a)) if dst != slot => {
                        let st: BTreeSet<String> = a.iter().cloned().collect();
                        let n = st.len();
                        model[dst] = Some(Coll::Set(st));
                        (format!("release ${{h{}}}\nh{} = set_from_array {}\nout = set_size ${{h{}}}", dst, dst, hv, dst), Some(n.to_string()))
                    }
                    Some(Coll::Arr(_)) => ("out = set skipped".to_string(), Some("skipped".to_string())),
                    _ => (format!("out = set_from_array {}", hv), err.clone()),
                }
            }
            // script-implemented: a NEW array holding the items of both arrays in order; any argument that is no live array
            // (a set, a map, a released or unknown handle) makes it report an error and create nothing
            "array_concat" => {
                let other = op["other"].as_u64().unwrap_or(0) as usize;
                let dst = op["dst"].as_u64().unwrap_or(0) as usize;
                let ov = format!("${{h{}}}", other);
                match (model[slot].clone(), model[other].clone()) {
                    (Some(Coll::Arr(a)), Some(Coll::Arr(b))) if dst != slot && dst != other => {
                        let mut c = a.clone();
                        c.extend(b.clone());
                        let n = c.len();
                        model[dst] = Some(Coll::Arr(c));
                        (format!("release ${{h{}}}\nh{} = array_concat {} {}\nout = array_length ${{h{}}}", dst, dst, hv, ov, dst), Some(n.to_string()))
                    }
                    (Some(Coll::Arr(_)), Some(Coll::Arr(_))) => ("out = set skipped".to_string(), Some("skipped".to_string())),
                    _ => (format!("out = array_concat {} {}", hv, ov), err.clone()),
                }
            }
            "set_size" => match &model[slot] {
                Some(Coll::Set(s)) => (format!("out = set_size {}", hv), Some(s.len().to_string())),
                _ => (format!("out = set_size {}", hv), err.clone()),
            },
            // script-implemented queries (documented results; on a missing / wrong-kind handle they report an error)
            "array_join" => match &model[slot] {
                Some(Coll::Arr(a)) => (format!("out = array_join {} {}", hv, q(&v)), Some(a.join(&v))),
                _ => (format!("out = array_join {} {}", hv, q(&v)), err.clone()),
            },
            "array_contains" => match &model[slot] {
                Some(Coll::Arr(a)) => (format!("out = array_contains {} {}", hv, q(&v)), Some(a.iter().position(|x| *x == v).map(|i| i.to_string()).unwrap_or("false".to_string()))),
                _ => (format!("out = array_contains {} {}", hv, q(&v)), err.clone()),
            },
            "array_is_empty" => match &model[slot] {
                Some(Coll::Arr(a)) => (format!("out = array_is_empty {}", hv), Some(a.is_empty().to_string())),
                _ => (format!("out = array_is_empty {}", hv), err.clone()),
            },
            "map_contains_key" => match &model[slot] {
                Some(Coll::Map(m)) => (format!("out = map_contains_key {} {}", hv, k), Some(m.contains_key(&k).to_string())),
                _ => (format!("out = map_contains_key {} {}", hv, k), err.clone()),
            },
            "map_contains_value" => match &model[slot] {
                Some(Coll::Map(m)) => (format!("out = map_contains_value {} {}", hv, q(&v)), Some(m.values().any(|x| *x == v).to_string())),
                _ => (format!("out = map_contains_value {} {}", hv, q(&v)), err.clone()),
            },
            "map_is_empty" => match &model[slot] {
                Some(Coll::Map(m)) => (format!("out = map_is_empty {}", hv), Some(m.is_empty().to_string())),
                _ => (format!("out = map_is_empty {}", hv), err.clone()),
            },
            "set_is_empty" => match &model[slot] {
                Some(Coll::Set(st)) => (format!("out = set_is_empty {}", hv), Some(st.is_empty().to_string())),
                _ => (format!("out = set_is_empty {}", hv), err.clone()),
            },
            "is_array" => (format!("out = is_array {}", hv), Some(matches!(model[slot], Some(Coll::Arr(_))).to_string())),
            "is_map" => (format!("out = is_map {}", hv), Some(matches!(model[slot], Some(Coll::Map(_))).to_string())),
            "is_set" => (format!("out = is_set {}", hv), Some(matches!(model[slot], Some(Coll::Set(_))).to_string())),
            "release" => {
                let was = model[slot].is_some();
                model[slot] = None;
                (format!("out = release {}", hv), Some(was.to_string()))
            }
            _ => return None,
        };
        // an unset slot variable expands to nothing: the command then sees a missing handle argument; the
        // model treats that like an unknown handle except for is_* (error) - skip those few shapes
        let slot_defined = context.variables.contains_key(&format!("h{}", slot));
        if !slot_defined && !matches!(name, "array" | "map" | "set_new") {
            continue;
        }
        context = match runner::run_script(&script, context, None) {
            Ok(c) => c,
            Err(e) => return Some(json!({"step": step, "script": script, "error": e.to_string()})),
        };
        let got = context.variables.remove("out");
        if got != expect {
            return Some(json!({"step": step, "script": script, "what": "output differs from the reference model", "model": expect, "real": got}));
        }
        // every other live collection is unchanged: compare full contents through the query commands
        for (s2, c) in model.iter().enumerate() {
            let probe = match c {
                Some(Coll::Arr(a)) => {
                    let mut sc = format!("p_len = array_length ${{h{}}}\n", s2);
                    for j in 0..a.len() {
                        sc.push_str(&format!("p_{} = array_get ${{h{}}} {}\n", j, s2, j));
                    }
                    Some((sc, {
                        let mut m = BTreeMap::new();
                        m.insert("p_len".to_string(), a.len().to_string());
                        for (j, x) in a.iter().enumerate() {
                            m.insert(format!("p_{}", j), x.clone());
                        }
                        m
                    }))
                }
                Some(Coll::Map(mm)) => {
                    let mut sc = format!("p_len = map_size ${{h{}}}\n", s2);
                    let mut m = BTreeMap::new();
                    m.insert("p_len".to_string(), mm.len().to_string());
                    for (j, (kk, vv)) in mm.iter().enumerate() {
                        sc.push_str(&format!("p_{} = map_get ${{h{}}} {}\n", j, s2, kk));
                        m.insert(format!("p_{}", j), vv.clone());
                    }
                    Some((sc, m))
                }
                Some(Coll::Set(ss)) => {
                    let mut sc = format!("p_len = set_size ${{h{}}}\n", s2);
                    let mut m = BTreeMap::new();
                    m.insert("p_len".to_string(), ss.len().to_string());
                    for (j, x) in ss.iter().enumerate() {
                        sc.push_str(&format!("p_{} = set_contains ${{h{}}} \"{}\"\n", j, s2, x));
                        m.insert(format!("p_{}", j), "true".to_string());
                    }
                    Some((sc, m))
                }
                None => None,
            };
            if let Some((sc, want)) = probe {
                context = match runner::run_script(&sc, context, None) {
                    Ok(c) => c,
                    Err(e) => return Some(json!({"step": step, "probe": sc, "error": e.to_string()})),
                };
                let mut gotm = BTreeMap::new();
                let keys: Vec<String> = context.variables.keys().filter(|k| k.starts_with("p_")).cloned().collect();
                for kx in keys {
                    gotm.insert(kx.clone(), context.variables.remove(&kx).unwrap());
                }
                if gotm != want {
                    return Some(json!({"step": step, "script": script, "what": "a collection differs from the reference model after this operation", "slot": s2, "model": want, "real": gotm}));
                }
            }
        }
    }
    None
}
