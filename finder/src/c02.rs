//! C02: each written argument becomes exactly one received argument = the template expansion
//! (substituted values verbatim, never re-scanned); %{name} spreads into the space-separated words.
use crate::rec::Record;
use crate::rng::Rng;
use duckscript::runner;
use duckscript::types::runtime::Context;
use serde_json::{json, Value};
use std::collections::BTreeMap;
use std::sync::{Arc, Mutex};

// the last four contain a lone % or $ (followed by a harmless character): plain text, not a reference
const LIT: [&str; 18] = ["a", "b", " ", "{", "}", ":", "-", "#", "=", "x y", "1", ".", "{}", "é", "50% off", "% x", "5$ y", "a%b"];
// (PATH and HOME are set in the process environment: a name that is undefined IN THE SCRIPT expands to nothing all the same)
const NAMES: [&str; 10] = ["x", "y", "long_name", "a.b", "n1", "größe", "файлы", "é", "PATH", "HOME"];
const VALS: [&str; 20] = ["", "v", "two words", "${x}", "%{y}", "\\${x}", "a}b", "$", "%", " lead", "q\"uote", "back\\slash", "end\n", "a b\t", "w\r\n", "trail ", "\u{a0}nb", "\\\\srv\\share x", "a \\d+", "\\"];

pub fn gen(r: &mut Rng) -> Value {
    let mut env = serde_json::Map::new();
    for n in NAMES.iter() {
        if r.chance(2, 3) && *n != "PATH" && (*n != "HOME" || r.chance(1, 2)) {
            env.insert(n.to_string(), json!(r.pick(&VALS)));
        }
    }
    let nargs = 1 + r.below(3);
    let mut args = vec![];
    for _ in 0..nargs {
        if r.chance(1, 6) {
            args.push(json!({"spread": r.pick(&NAMES)}));
            continue;
        }
        let np = 1 + r.below(4);
        let mut pieces = vec![];
        for _ in 0..np {
            pieces.push(match r.below(11) {
                0..=3 => json!({"lit": r.pick(&LIT)}),
                4..=7 => json!({"var": r.pick(&NAMES)}),
                8 | 9 => json!({"esc": r.pick(&NAMES)}),
                // a spread reference that is only PART of the written argument
                _ => json!({"spr": r.pick(&NAMES)}),
            });
        }
        args.push(json!({"pieces": pieces}));
    }
    json!({"env": env, "args": args})
}

fn quote(s: &str) -> String {
    let mut o = String::from("\"");
    for c in s.chars() {
        match c {
            '\\' => o.push_str("\\\\"),
            '"' => o.push_str("\\\""),
            c => o.push(c),
        }
    }
    o.push('"');
    o
}

/// structural class of an input (to tell the listed known finding from a new violation)
pub fn class_of(input: &Value) -> &'static str {
    let embedded = input["args"].as_array().map(|a| a.iter().any(|x| {
        x["pieces"].as_array().map(|p| p.len() > 1 && p.iter().any(|q| !q["spr"].is_null())).unwrap_or(false)
    })).unwrap_or(false);
    if embedded { "spread-reference-inside-a-larger-argument" } else { "other" }
}

pub fn run(input: &Value) -> Option<Value> {
    run_inner(input).map(|mut d| {
        d["class"] = json!(class_of(input));
        d
    })
}

fn run_inner(input: &Value) -> Option<Value> {
    let env: BTreeMap<String, String> = input["env"].as_object()?.iter().map(|(k, v)| (k.clone(), v.as_str().unwrap().to_string())).collect();
    let mut written = vec![];
    let mut expected: Vec<String> = vec![];
    let mut count_only = false;
    for a in input["args"].as_array()? {
        // an argument that consists of a single spread piece is the documented %{name} form
        if let Some(p) = a["pieces"].as_array() {
            if p.len() == 1 && !p[0]["spr"].is_null() {
                let n = p[0]["spr"].as_str()?;
                written.push(format!("%{{{}}}", n));
                let v = env.get(n).cloned().unwrap_or_default();
                if v.contains('"') || v.contains('#') {
                    return None;
                }
                expected.extend(v.split(' ').filter(|w| !w.is_empty()).map(|w| w.to_string()));
                continue;
            }
        }
        if let Some(n) = a["spread"].as_str() {
            written.push(format!("%{{{}}}", n));
            let v = env.get(n).cloned().unwrap_or_default();
            // the statement fixes spreading only for words without quotes / comments (backslashes are ordinary characters there)
            if v.contains('"') || v.contains('#') {
                return None;
            }
            expected.extend(v.split(' ').filter(|w| !w.is_empty()).map(|w| w.to_string()));
            continue;
        }
        let mut text = String::new();
        let mut exp = String::new();
        let pieces = a["pieces"].as_array()?;
        for (i, p) in pieces.iter().enumerate() {
            if let Some(l) = p["lit"].as_str() {
                // adjacent literals must not form an escape; a literal is free of $ % \
                text.push_str(l);
                exp.push_str(l);
            } else if let Some(n) = p["var"].as_str() {
                text.push_str(&format!("${{{}}}", n));
                exp.push_str(env.get(n).map(|s| s.as_str()).unwrap_or(""));
            } else if let Some(n) = p["esc"].as_str() {
                text.push_str(&format!("\\${{{}}}", n));
                exp.push_str(&format!("${{{}}}", n));
            } else if let Some(n) = p["spr"].as_str() {
                // %{name} inside a larger argument: the statement fixes only that the argument stays ONE argument
                text.push_str(&format!("%{{{}}}", n));
                exp.push_str(env.get(n).map(|s| s.as_str()).unwrap_or(""));
                count_only = true;
            }
            let _ = i;
        }
        // written inside quotes: backslash of the escape must itself be escaped for the parser
        written.push(quote(&text));
        expected.push(exp);
    }
    let calls = Arc::new(Mutex::new(vec![]));
    let mut context = Context::new();
    context.commands.set(Box::new(Record { name: "record".to_string(), calls: calls.clone(), output: None })).ok()?;
    for (k, v) in env.iter() {
        context.variables.insert(k.clone(), v.clone());
    }
    let script = format!("record {}", written.join(" "));
    match runner::run_script(&script, context, None) {
        Ok(_) => {
            let got = calls.lock().unwrap().clone();
            if count_only {
                if got.len() != 1 || got[0].len() != expected.len() {
                    return Some(json!({"script": script, "env": env, "what": "a written argument that is not exactly %{name} became several (or no) arguments", "expected_count": expected.len(), "real": got}));
                }
                return None;
            }
            if got.len() != 1 || got[0] != expected {
                Some(json!({"script": script, "env": env, "expected": expected, "real": got}))
            } else {
                None
            }
        }
        Err(e) => Some(json!({"script": script, "error": e.to_string()})),
    }
}
