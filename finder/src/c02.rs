//! C02: each written argument becomes exactly one received argument = the template expansion
//! (substituted values verbatim, never re-scanned); %{name} spreads into the space-separated words.
use crate::rec::Record;
use crate::rng::Rng;
use duckscript::runner;
use duckscript::types::runtime::Context;
use serde_json::{json, Value};
use std::collections::BTreeMap;
use std::sync::{Arc, Mutex};

const LIT: [&str; 14] = ["a", "b", " ", "{", "}", ":", "-", "#", "=", "x y", "1", ".", "{}", "é"];
const NAMES: [&str; 5] = ["x", "y", "long_name", "a.b", "n1"];
const VALS: [&str; 17] = ["", "v", "two words", "${x}", "%{y}", "\\${x}", "a}b", "$", "%", " lead", "q\"uote", "back\\slash", "end\n", "a b\t", "w\r\n", "trail ", "\u{a0}nb"];

pub fn gen(r: &mut Rng) -> Value {
    let mut env = serde_json::Map::new();
    for n in NAMES.iter() {
        if r.chance(2, 3) {
            env.insert(n.to_string(), json!(r.pick(&VALS)));
        }
    }
    let nargs = 1 + r.below(3);
    let mut args = vec![];
    for _ in 0..nargs {
        if r.chance(1, 6) {
            args.push(json!({"spread": r.pick(&NAMES)}));
            continue;
        }
        let np = 1 + r.below(4);
        let mut pieces = vec![];
        for _ in 0..np {
            pieces.push(match r.below(5) {
                0 | 1 => json!({"lit": r.pick(&LIT)}),
                2 | 3 => json!({"var": r.pick(&NAMES)}),
                _ => json!({"esc": r.pick(&NAMES)}),
            });
        }
        args.push(json!({"pieces": pieces}));
    }
    json!({"env": env, "args": args})
}

fn quote(s: &str) -> String {
    let mut o = String::from("\"");
    for c in s.chars() {
        match c {
            '\\' => o.push_str("\\\\"),
            '"' => o.push_str("\\\""),
            c => o.push(c),
        }
    }
    o.push('"');
    o
}

pub fn run(input: &Value) -> Option<Value> {
    let env: BTreeMap<String, String> = input["env"].as_object()?.iter().map(|(k, v)| (k.clone(), v.as_str().unwrap().to_string())).collect();
    let mut written = vec![];
    let mut expected: Vec<String> = vec![];
    for a in input["args"].as_array()? {
        if let Some(n) = a["spread"].as_str() {
            written.push(format!("%{{{}}}", n));
            let v = env.get(n).cloned().unwrap_or_default();
            // the statement fixes spreading only for words without quotes / comments / backslashes
            if v.contains('"') || v.contains('#') || v.contains('\\') {
                return None;
            }
            expected.extend(v.split(' ').filter(|w| !w.is_empty()).map(|w| w.to_string()));
            continue;
        }
        let mut text = String::new();
        let mut exp = String::new();
        let pieces = a["pieces"].as_array()?;
        for (i, p) in pieces.iter().enumerate() {
            if let Some(l) = p["lit"].as_str() {
                // adjacent literals must not form an escape; a literal is free of $ % \
                text.push_str(l);
                exp.push_str(l);
            } else if let Some(n) = p["var"].as_str() {
                text.push_str(&format!("${{{}}}", n));
                exp.push_str(env.get(n).map(|s| s.as_str()).unwrap_or(""));
            } else if let Some(n) = p["esc"].as_str() {
                text.push_str(&format!("\\${{{}}}", n));
                exp.push_str(&format!("${{{}}}", n));
            }
            let _ = i;
        }
        // written inside quotes: backslash of the escape must itself be escaped for the parser
        written.push(quote(&text));
        expected.push(exp);
    }
    let calls = Arc::new(Mutex::new(vec![]));
    let mut context = Context::new();
    context.commands.set(Box::new(Record { name: "record".to_string(), calls: calls.clone(), output: None })).ok()?;
    for (k, v) in env.iter() {
        context.variables.insert(k.clone(), v.clone());
    }
    let script = format!("record {}", written.join(" "));
    match runner::run_script(&script, context, None) {
        Ok(_) => {
            let got = calls.lock().unwrap().clone();
            if got.len() != 1 || got[0] != expected {
                Some(json!({"script": script, "env": env, "expected": expected, "real": got}))
            } else {
                None
            }
        }
        Err(e) => Some(json!({"script": script, "error": e.to_string()})),
    }
}
