//! C16 (rest of the listed commands): equals, is_empty, concat, replace, split (+ join back), trim / trim_start /
//! trim_end, uppercase, lowercase, less_than / greater_than (numeric order, both directions agree), calc on
//! generated integer expressions, range = half-open interval; out-of-domain input gives the error result.
use crate::rng::Rng;
use duckscript::runner;
use duckscript::types::runtime::Context;
use serde_json::{json, Value};

// (pieces that spell a falsy text when put together: a result must not depend on what the text happens to mean)
const PIECES: [&str; 25] = ["a", "b", "B", "é", "日", " ", "  ", "\t", "ab", "-", ",", "aa", "É", "À", "Σ", "ß", "fal", "se", "0", "n", "o", "N", "O", "false", "no"];
// includes values that differ by less than any "tolerance" a comparison might be tempted to use
const NUMS: [&str; 30] = ["0", "1", "-1", "2", "10", "9", "16777216", "16777217", "1700000001000", "1700000000000", "-100000000", "-100000001",
    "0.3", "0.300000001", "1e3", "1000", "-0", "007", "3.0", "3", "x", "",
    "1e-20", "1e-18", "0.0000000000000001", "0.0000000000000002", "1e-17", "-1e-17", "1.0000000000000002", "1e300"];

fn mk(r: &mut Rng, n: usize) -> String {
    (0..n).map(|_| r.pick(&PIECES).to_string()).collect()
}

pub fn gen(r: &mut Rng) -> Value {
    match r.below(5) {
        0 => json!({"kind": "cmp", "a": r.pick(&NUMS), "b": r.pick(&NUMS)}),
        1 => {
            // left-to-right integer expression without division
            let n = 1 + r.below(4);
            let mut terms = vec![(r.below(50) as i64).to_string()];
            for _ in 0..n {
                terms.push(r.pick(&["+", "-", "*"]).to_string());
                terms.push((r.below(50) as i64).to_string());
            }
            json!({"kind": "calc", "terms": terms})
        }
        2 => if r.chance(1, 3) { let base = if r.chance(1, 2) { 2 } else { 10 }; json!({"kind": "pow", "base": base, "exp": 15 + r.below(60)}) } else { if r.chance(1, 2) { json!({"kind": "range", "a": r.below(7) as i64 - 2, "b": r.below(9) as i64 - 2}) } else {
                // bounds as written text: big integers (beyond 2^53, near the i64 limits), signs, and texts that are no integers
                let base: i64 = *r.pick(&[0i64, 9007199254740992, -9007199254740992, i64::MAX - 4, i64::MIN + 1, 1000000007]);
                let a = base.saturating_add(r.below(4) as i64);
                let b = base.saturating_add(r.below(5) as i64);
                let odd = ["1.5", "2.0", "1e3", "", "abc", " 2", "0x10", "NaN", "inf", "1_000", "٣"];
                let (ta, tb) = match r.below(6) { 0 => (r.pick(&odd).to_string(), b.to_string()), 1 => (a.to_string(), r.pick(&odd).to_string()), 2 => (format!("+{}", a.max(0)), b.max(0).to_string()), _ => (a.to_string(), b.to_string()) };
                json!({"kind": "range_text", "a": ta, "b": tb})
            } },
        3 => {
            let (n, m) = (r.below(5), 1 + r.below(2));
            if r.chance(1, 3) {
                // lines: texts with \n / \r\n / lone \r split at a line break
                let lp = ["a", "b", "\n", "\r\n", "\r", " ", "x"];
                let text: String = (0..(1 + r.below(6))).map(|_| r.pick(&lp).to_string()).collect();
                json!({"kind": "split", "text": text, "sep": r.pick(&["\n", "\r\n", "\r"])})
            } else {
                json!({"kind": "split", "text": mk(r, n), "sep": mk(r, m)})
            }
        }
        _ => {
            let (x, y, z) = (r.below(5), r.below(3), r.below(3));
            let s = mk(r, x);
            // the second text: unrelated, or a near miss of the first (same text, case of its ASCII letters flipped, one
            // piece appended, a prefix) - comparisons must tell those apart
            let t = match r.below(6) {
                0 => s.clone(),
                1 => s.chars().map(|c| if c.is_ascii_lowercase() { c.to_ascii_uppercase() } else { c.to_ascii_lowercase() }).collect(),
                2 => format!("{}{}", s, r.pick(&PIECES)),
                3 => s.chars().take(s.chars().count() / 2).collect(),
                _ => mk(r, y),
            };
            json!({"kind": "text", "s": s, "t": t, "u": mk(r, z)})
        }
    }
}

fn q(s: &str) -> String {
    format!("\"{}\"", s.replace('\t', "\\t").replace('\n', "\\n").replace('\r', "\\r"))
}

fn run_script(script: &str) -> Result<Context, String> {
    let mut context = Context::new();
    duckscriptsdk::load(&mut context.commands).map_err(|e| e.to_string())?;
    runner::run_script(script, context, None).map_err(|e| e.to_string())
}

pub fn run(input: &Value) -> Option<Value> {
    match input["kind"].as_str()? {
        "cmp" => {
            let (a, b) = (input["a"].as_str()?, input["b"].as_str()?);
            let script = format!("lt = less_than {} {}\ngt = greater_than {} {}\nlt2 = less_than {} {}\ngt2 = greater_than {} {}", q(a), q(b), q(a), q(b), q(b), q(a), q(b), q(a));
            let ctx = match run_script(&script) { Ok(c) => c, Err(e) => return Some(json!({"script": script, "error": e})) };
            let get = |k: &str| ctx.variables.get(k).cloned();
            let (fa, fb) = (a.parse::<f64>(), b.parse::<f64>());
            let want = |x: Option<bool>| Some(match x { Some(v) => v.to_string(), None => "false".to_string() });
            let (lt, gt) = match (fa, fb) { (Ok(x), Ok(y)) => (Some(x < y), Some(x > y)), _ => (None, None) };
            if get("lt") != want(lt) || get("gt") != want(gt) || get("lt2") != want(gt) || get("gt2") != want(lt) {
                return Some(json!({"script": script, "what": "less_than / greater_than disagree with numeric order (or with each other)", "model": {"lt": lt, "gt": gt},
                    "real": {"lt": get("lt"), "gt": get("gt"), "lt_swapped": get("lt2"), "gt_swapped": get("gt2")}}));
            }
            None
        }
        "pow" => {
            // powers are computed in floating point and printed the way a float is printed, however large
            let (b, e) = (input["base"].as_u64()?, input["exp"].as_u64()?);
            let want = (b as f64).powf(e as f64).to_string();
            let script = format!("out = calc {} ^ {}", b, e);
            let ctx = match run_script(&script) { Ok(c) => c, Err(e) => return Some(json!({"script": script, "error": e})) };
            let got = ctx.variables.get("out").cloned();
            if got != Some(want.clone()) {
                return Some(json!({"script": script, "what": "calc differs from ordinary arithmetic on a large power", "model": want, "real": got}));
            }
            None
        }
        "calc" => {
            let terms: Vec<String> = input["terms"].as_array()?.iter().map(|v| v.as_str().unwrap().to_string()).collect();
            // ordinary arithmetic: * binds tighter than + and -
            let mut sum: Vec<i64> = vec![];
            let mut sign = 1i64;
            let mut cur: i64 = terms[0].parse().ok()?;
            let mut i = 1;
            while i + 1 < terms.len() {
                let v: i64 = terms[i + 1].parse().ok()?;
                match terms[i].as_str() {
                    "*" => cur = cur.checked_mul(v)?,
                    "+" => { sum.push(sign * cur); sign = 1; cur = v; }
                    _ => { sum.push(sign * cur); sign = -1; cur = v; }
                }
                i += 2;
            }
            sum.push(sign * cur);
            let want: i64 = sum.iter().sum();
            let script = format!("out = calc {}", terms.join(" "));
            let ctx = match run_script(&script) { Ok(c) => c, Err(e) => return Some(json!({"script": script, "error": e})) };
            let got = ctx.variables.get("out").cloned();
            if got != Some(want.to_string()) {
                return Some(json!({"script": script, "what": "calc differs from ordinary arithmetic", "model": want, "real": got}));
            }
            None
        }
        "range_text" => {
            let (ta, tb) = (input["a"].as_str()?, input["b"].as_str()?);
            let script = format!("h = range \"{}\" \"{}\"\nn = array_length ${{h}}\nj = array_join ${{h}} ,", ta, tb);
            let ctx = match run_script(&script) { Ok(c) => c, Err(e) => return Some(json!({"script": script, "error": e})) };
            let get = |k: &str| ctx.variables.get(k).cloned();
            match (ta.parse::<i64>(), tb.parse::<i64>()) {
                (Ok(a), Ok(b)) if a <= b && b - a <= 16 => {
                    let items: Vec<String> = (a..b).map(|x| x.to_string()).collect();
                    if get("n") != Some(items.len().to_string()) || (items.len() > 0 && get("j") != Some(items.join(","))) {
                        return Some(json!({"script": script, "what": "range is not the half-open integer interval", "model": items, "real": {"n": get("n"), "joined": get("j")}}));
                    }
                    None
                }
                (Ok(a), Ok(b)) if a <= b => None,
                _ => {
                    // a bound that is no integer, or start > end: the error result, not a value
                    if get("h") != Some("false".to_string()) {
                        return Some(json!({"script": script, "what": "range with a bound that is no integer (or start > end) must report an error", "real": get("h")}));
                    }
                    None
                }
            }
        }
        "range" => {
            let (a, b) = (input["a"].as_i64()?, input["b"].as_i64()?);
            let script = format!("h = range {} {}\nn = array_length ${{h}}\nj = array_join ${{h}} ,", a, b);
            let ctx = match run_script(&script) { Ok(c) => c, Err(e) => return Some(json!({"script": script, "error": e})) };
            let get = |k: &str| ctx.variables.get(k).cloned();
            if a > b {
                if get("h") != Some("false".to_string()) {
                    return Some(json!({"script": script, "what": "range with start > end must report an error", "real": get("h")}));
                }
                return None;
            }
            let items: Vec<String> = (a..b).map(|x| x.to_string()).collect();
            let want_join = items.join(",");
            if get("n") != Some(items.len().to_string()) || (items.len() > 0 && get("j") != Some(want_join.clone())) {
                return Some(json!({"script": script, "what": "range is not the half-open integer interval", "model": items, "real": {"n": get("n"), "joined": get("j")}}));
            }
            None
        }
        "split" => {
            let (text, sep) = (input["text"].as_str()?, input["sep"].as_str()?);
            let pieces: Vec<&str> = text.split(sep).collect();
            let line_breaks = sep.contains('\n') || sep.contains('\r') || text.contains('\n') || text.contains('\r');
            // (a separator / text with line breaks cannot go through the script-implemented array_join - open C09 class
            // argument-containing-line-break -, so the pieces are read back one by one)
            let mut script = format!("h = split {} {}\nn = array_length ${{h}}\n", q(text), q(sep));
            if line_breaks {
                for k in 0..pieces.len() { script.push_str(&format!("p{} = array_get ${{h}} {}\n", k, k)); }
            } else {
                script.push_str(&format!("j = array_join ${{h}} {}", q(sep)));
            }
            let ctx = match run_script(&script) { Ok(c) => c, Err(e) => return Some(json!({"script": script, "error": e})) };
            let get = |k: &str| ctx.variables.get(k).cloned();
            if get("n") != Some(pieces.len().to_string()) {
                return Some(json!({"script": script, "what": "number of split pieces differs from the plain split", "model": pieces, "real": get("n")}));
            }
            if line_breaks {
                for (k, want) in pieces.iter().enumerate() {
                    // (an empty piece is stored as an empty text: array_get returns it as such)
                    if get(&format!("p{}", k)).unwrap_or_default() != *want {
                        return Some(json!({"script": script, "what": "a split piece differs from the plain split (the pieces joined by the separator must give back the text)", "index": k, "model": want, "real": get(&format!("p{}", k))}));
                    }
                }
                return None;
            }
            // the pieces joined by the separator give back the text
            if get("j").unwrap_or_default() != text {
                return Some(json!({"script": script, "what": "pieces joined by the separator do not give back the text", "model": text, "real": get("j")}));
            }
            None
        }
        "text" => {
            let (s, t, u) = (input["s"].as_str()?, input["t"].as_str()?, input["u"].as_str()?);
            let script = format!(
                "eq = equals {s} {t}\neq2 = equals {s} {s}\nem = is_empty {s}\ncc = concat {s} {t} {u}\nrp = replace {s} {t} {u}\ntr = trim {s}\nts = trim_start {s}\nte = trim_end {s}\nup = uppercase {s}\nlo = lowercase {s}",
                s = q(s), t = q(t), u = q(u));
            let ctx = match run_script(&script) { Ok(c) => c, Err(e) => return Some(json!({"script": script, "error": e})) };
            let get = |k: &str| ctx.variables.get(k).cloned();
            let mut bad = vec![];
            let mut chk = |name: &str, want: String| {
                if get(name) != Some(want.clone()) {
                    bad.push(json!({"command": name, "model": want, "real": get(name)}));
                }
            };
            chk("eq", (s == t).to_string());
            chk("eq2", "true".to_string());
            chk("em", s.is_empty().to_string());
            chk("cc", format!("{}{}{}", s, t, u));
            chk("rp", s.replace(t, u));
            chk("tr", s.trim().to_string());
            chk("ts", s.trim_start().to_string());
            chk("te", s.trim_end().to_string());
            chk("up", s.to_uppercase());
            chk("lo", s.to_lowercase());
            if bad.is_empty() { None } else { Some(json!({"script": script, "what": "text command differs from the plain string operation", "mismatches": bad})) }
        }
        _ => None,
    }
}
