//! C07: no script can panic, abort or hang the embedding process. Random sequences of library commands (every
//! registered command except those whose purpose is to block, leave the process, touch the network or change files /
//! the process environment, and except the loop constructs) with arguments from typed and untyped pools; arbitrary
//! text at parser level. A panic is caught by the harness (main.rs::run_one); a run that does not return in time is
//! reported as a hang. BOUNDED sampling: never counted as proof.
use crate::rng::Rng;
use duckscript::runner;
use duckscript::types::env::Env;
use duckscript::types::runtime::Context;
use serde_json::{json, Value};
use std::sync::mpsc;
use std::time::Duration;

/// commands outside the property's domain (block, leave the process, network, change files or the process
/// environment, run other programs / test files, write the SDK documentation to a file named by the argument) and the
/// loop constructs themselves; the driver runs every finder process in a scratch directory of its own
const DENY: &[&str] = &[
    "read", "sleep", "exec", "spawn", "exit", "quit", "q", "watchdog", "http_client", "wget", "ftp_get", "ftp_get_in_memory", "ftp_put",
    "ftp_put_in_memory", "ftp_list", "ftp_nlst", "rm", "mv", "cp", "writefile", "write_text_file", "appendfile", "write_binary_file",
    "writebinfile", "touch", "mkdir", "rmdir", "zip", "unzip", "chmod", "cd", "set_current_dir",
    "set_current_directory", "temp_file", "test_directory", "test_file", "gitignore_path_array", "glob_array", "globarray", "glob_cp",
    "glob_chmod", "cp_glob", "chmod_glob", "map_to_properties", "write_properties", "if", "elseif", "else", "while", "for", "fn",
    "function", "end", "end_if", "end_while", "end_for", "end_fn", "cat",
];

// (values a command may use as a SIZE stay small: exhausting memory is outside the property; the large ones do not parse as i64 / usize)
const NUMS: [&str; 16] = ["0", "1", "-1", "2", "3", "10", "255", "65536", "-9223372036854775808", "99999999999999999999", "1.5", "-0.0", "1e309", "NaN", "0x1F", "٣"];
const TEXTS: [&str; 18] = ["", " ", "a", "abc", "a b", "héllo", "日本語", "\u{0}", "é", "\u{1F600}", "A-b_c D", "a,b,,c", "k=v", "x\ty", "%", "/", ".", "true"];
const FLAGS: [&str; 14] = ["--", "-r", "--recursive", "--copy", "--prefix", "-e", "-d", "-encode", "-decode", "--help", "--collection", "--order", "--pretty", "--full"];
const DOCS: [&str; 12] = ["{\"name\":\"x\",\"住所録\":{\"city\":\"tokyo\"}}", "{\"日\":{\"a\":1},\"éé\":{\"b\":[1,{\"ç\":2}]}}", "{}", "[]", "[1,2", "{\"a\":1,\"b\":[true,null,{\"c\":\"d\"}]}", "null", "\"s\"", "1.2.3", "1.x", "a=b\nc=d", "YWJj"];

pub fn gen(r: &mut Rng) -> Value {
    if r.chance(1, 6) {
        // parser level: arbitrary text
        let alphabet = [":", "=", "\"", "\\", "#", "!", "$", "%", "{", "}", " ", "\t", "\n", "\r\n", "a", "é", "include_files", "print", "x"];
        let n = r.below(30);
        let t: String = (0..n).map(|_| *r.pick(&alphabet)).collect();
        return json!({"text": t});
    }
    let names = pool_cached();
    if names.is_empty() {
        return json!({"text": ""});
    }
    if r.chance(1, 15) {
        // the collection form of json_encode over every prepared handle (nested, cyclic, cycle entered from outside)
        return json!({"lines": [{"name": "json_encode", "args": ["--collection", r.pick(&HANDLES)]}]});
    }
    if r.chance(1, 12) {
        // a document parsed into variables and encoded back (object / array paths with names outside ASCII)
        return json!({"lines": [{"name": "json_parse", "args": [r.pick(&DOCS)]}, {"name": "json_encode", "args": ["out"]}]});
    }
    let n = 1 + r.below(5);
    let lines: Vec<Value> = (0..n)
        .map(|_| {
            let name = r.pick(names).to_string();
            let k = r.below(5);
            let untyped = |r: &mut Rng| match r.below(9) {
                0 | 1 => r.pick(&NUMS).to_string(),
                2 | 3 => r.pick(&TEXTS).to_string(),
                4 => r.pick(&HANDLES).to_string(),
                5 => r.pick(&FLAGS).to_string(),
                6 => r.pick(&DOCS).to_string(),
                7 => r.pick(&["${v}", "${undefined}", "%{v}", "${out}", "v", "out", "h_arr"]).to_string(),
                _ => r.pick(&NUMS).to_string(),
            };
            // typed pool per command family (two thirds of the lines): the arguments a command expects, so that its
            // deeper paths run; the rest stays untyped
            let typed = r.chance(2, 3);
            let args: Vec<String> = (0..k)
                .map(|i| {
                    if !typed {
                        return untyped(r);
                    }
                    let coll = name.starts_with("array") || name.starts_with("map") || name.starts_with("set_") || name.starts_with("is_") || name == "release";
                    if name == "eval" || name == "alias" {
                        // a block word / flow command evaluated on its own (no script around it), or under a new name
                        if i == 0 && name == "alias" { "n1".to_string() } else if i <= 1 { r.pick(&["if", "for", "while", "fn", "function", "else", "elseif", "end", "goto", "return", "true", "x", "in", "set", "array", "release", "on_error"]).to_string() } else { r.pick(&["true", "x", "in", "${h_arr}", ":l", "<scope>", "1"]).to_string() }
                    } else if coll {
                        if i == 0 { r.pick(&HANDLES).to_string() } else if r.chance(1, 2) { r.pick(&NUMS).to_string() } else { r.pick(&TEXTS).to_string() }
                    } else if name.contains("json") {
                        match r.below(5) { 0 => r.pick(&["--collection", "-c", "v", "out"]).to_string(), 1 | 2 => r.pick(&HANDLES).to_string(), _ => r.pick(&DOCS).to_string() }
                    } else if name.contains("semver") {
                        r.pick(&["1.2.3", "1.2", "0.0.0", "1.2.3-alpha+7", "v1.2.3", "", "99999999999999999999.1.1", "1.2.3.4", "a.b.c"]).to_string()
                    } else if name == "calc" || name.starts_with("hex") || name.contains("than") || name.starts_with("random") {
                        r.pick(&["0", "1", "-1", "7", "1 + 2", "1 / 0", "10 % 0", "2 ^ 3", "(", ")", "1 +", "0x1F", "0xZZ", "ff", "-0x1", "1e3", "1.5", "99999999999999999999", "abc", ""]).to_string()
                    } else if name.contains("base64") || name.contains("bytes") || name.contains("digest") || name.contains("sum") {
                        match r.below(4) { 0 => r.pick(&FLAGS).to_string(), 1 => r.pick(&HANDLES).to_string(), 2 => r.pick(&DOCS).to_string(), _ => r.pick(&TEXTS).to_string() }
                    } else if name.contains("substring") || name.contains("indexof") || name.contains("split") || name.contains("replace") || name.contains("trim") || name.contains("case") || name.contains("with") || name == "length" || name == "strlen" || name == "concat" {
                        if r.chance(1, 2) { r.pick(&TEXTS).to_string() } else { r.pick(&NUMS).to_string() }
                    } else {
                        untyped(r)
                    }
                })
                .collect();
            // option flags come first (`release -r <handle>`, `json_parse --collection <text>`)
            let mut args = args;
            if typed && r.chance(1, 4) {
                args.insert(0, r.pick(&["-r", "--recursive", "--collection", "-c", "-e", "-d", "--prefix", "--copy"]).to_string());
            }
            json!({"name": name, "args": args})
        })
        .collect();
    // (a name defined by an earlier `alias n1 ..` line is called at the end)
    let mut lines = lines;
    if lines.iter().any(|l| l["name"] == "alias" && l["args"][0] == "n1" && l["args"][1] != "n1" && l["args"].as_array().map(|a| a.len() >= 2).unwrap_or(false)) {
        lines.push(json!({"name": "n1", "args": [r.pick(&["true", "x", "${h_arr}"])]}));
    }
    json!({ "lines": lines })
}

// (h_cyc / h_cmap: collections that contain their own handle, directly or through a second one)
const HANDLES: [&str; 9] = ["${h_arr}", "${h_map}", "${h_set}", "${h_rel}", "handle:garbage", "${h_nested}", "${h_cyc}", "${h_cmap}", "${h_outer}"];

fn pool_cached() -> &'static Vec<String> {
    static POOL: std::sync::OnceLock<Vec<String>> = std::sync::OnceLock::new();
    POOL.get_or_init(pool)
}

fn quote(s: &str) -> String {
    if s.starts_with("${") || s.starts_with("%{") {
        return s.to_string();
    }
    let mut o = String::from("\"");
    for c in s.chars() {
        match c {
            '\\' => o.push_str("\\\\"),
            '"' => o.push_str("\\\""),
            '\n' => o.push_str("\\n"),
            '\r' => o.push_str("\\r"),
            '\t' => o.push_str("\\t"),
            c => o.push(c),
        }
    }
    o.push('"');
    o
}

fn pool() -> Vec<String> {
    let mut context = Context::new();
    if duckscriptsdk::load(&mut context.commands).is_err() {
        return vec![];
    }
    let mut out = vec![];
    for name in context.commands.get_all_command_names() {
        if let Some(c) = context.commands.get(&name) {
            let call = c.aliases().first().cloned().unwrap_or(name.clone());
            let denied = DENY.iter().any(|d| *d == call) || c.aliases().iter().any(|a| DENY.iter().any(|d| d == a))
                || ["http", "ftp", "exec", "spawn", "watchdog", "sleep", "read", "sdkdocsgen"].iter().any(|w| name.to_lowercase().ends_with(w));
            if !denied {
                out.push(call);
            }
        }
    }
    out
}

pub fn run(input: &Value) -> Option<Value> {
    let script = if let Some(t) = input["text"].as_str() {
        t.to_string()
    } else {
        let mut s = String::from("h_arr = array a b c\nh_map = map\nmap_put ${h_map} k v\nh_set = set_new x y\nh_rel = array z\nrelease ${h_rel}\nh_nested = array ${h_arr} ${h_map}\nh_cyc = array 1\narray_push ${h_cyc} ${h_cyc}\nh_cmap = map\nh_cmap2 = map\nmap_put ${h_cmap} child ${h_cmap2}\nmap_put ${h_cmap2} parent ${h_cmap}\nh_outer = array first ${h_cmap2} ${h_cyc}\nv = set \"some value\"\n");
        for l in input["lines"].as_array()? {
            let cmd = l["name"].as_str()?;
            let args: Vec<String> = l["args"].as_array()?.iter().map(|a| quote(a.as_str().unwrap_or(""))).collect();
            s.push_str(&format!("out = {} {}\n", cmd, args.join(" ")));
        }
        s
    };
    // the run happens on its own thread: a panic is re-raised here (the harness reports it), a run that does not come
    // back in time is reported as a hang
    let (tx, rx) = mpsc::channel();
    let sc = script.clone();
    let handle = std::thread::Builder::new().stack_size(64 * 1024 * 1024).spawn(move || {
        let mut context = Context::new();
        let _ = duckscriptsdk::load(&mut context.commands);
        let env = Env::new(Some(Box::new(std::io::sink())), Some(Box::new(std::io::sink())), None);
        let r = std::panic::catch_unwind(std::panic::AssertUnwindSafe(|| runner::run_script(&sc, context, Some(env)).is_ok()));
        let _ = tx.send(match r {
            Ok(_) => None,
            Err(e) => Some(if let Some(s) = e.downcast_ref::<String>() { s.clone() } else if let Some(s) = e.downcast_ref::<&str>() { s.to_string() } else { "panic".to_string() }),
        });
    });
    if handle.is_err() {
        return None;
    }
    match rx.recv_timeout(Duration::from_secs(10)) {
        Ok(None) => None,
        Ok(Some(msg)) => Some(json!({"script": script, "what": "the run panicked instead of returning a result or an error", "panic": msg})),
        Err(_) => Some(json!({"script": script, "what": "the run did not return control within 10 s (no loop construct in the script)"})),
    }
}
