//! C15: the registry against a name table + alias table model written from the statement.
use crate::rng::Rng;
use duckscript::types::command::{Command, Commands};
use serde_json::{json, Value};
use std::collections::BTreeMap;

#[derive(Clone)]
struct TestCmd {
    id: usize,
    name: String,
    aliases: Vec<String>,
}
impl Command for TestCmd {
    fn name(&self) -> String {
        self.name.clone()
    }
    fn aliases(&self) -> Vec<String> {
        self.aliases.clone()
    }
    fn help(&self) -> String {
        format!("{}", self.id)
    }
    fn clone_and_box(&self) -> Box<dyn Command> {
        Box::new(self.clone())
    }
}

/// script level: alias / unalias / remove_command / is_command_defined / function definitions / calls over a few names
fn gen_script(r: &mut Rng) -> Value {
    let pool = ["ka", "kb", "kc"];
    let n = 3 + r.below(8);
    let mut ops = vec![];
    for _ in 0..n {
        let name = r.pick(&pool).to_string();
        let op = ["alias", "alias", "unalias", "unalias", "remove", "fn", "defined", "call", "ub"][r.below(9)];
        ops.push(json!({"op": op, "name": name}));
    }
    json!({"kind": "script", "ops": ops})
}

enum Kind {
    Alias(String),
    Func(String),
}

fn run_script_level(input: &Value) -> Option<Value> {
    use duckscript::runner;
    use duckscript::types::runtime::Context;
    let mut model: BTreeMap<String, Kind> = BTreeMap::new();
    let mut fn_defined: Vec<String> = vec![];
    let mut builtin_gone = false;
    let mut lines: Vec<String> = vec![];
    let mut expect: Vec<(String, Option<String>)> = vec![];
    for (i, op) in input["ops"].as_array()?.iter().enumerate() {
        let n = op["name"].as_str()?.to_string();
        let rv = format!("r{}", i);
        match op["op"].as_str()? {
            "alias" => {
                lines.push(format!("{} = alias {} set v{}", rv, n, i));
                if model.contains_key(&n) {
                    // refused: the error result puts `false` into the output variable, nothing changes
                    expect.push((rv, Some("false".to_string())));
                } else {
                    model.insert(n.clone(), Kind::Alias(format!("v{}", i)));
                    expect.push((rv, Some("true".to_string())));
                }
            }
            "fn" => {
                // a name is defined as a function at most once, and only while it is free
                if model.contains_key(&n) || fn_defined.contains(&n) {
                    continue;
                }
                lines.push(format!("fn {}", n));
                lines.push(format!("return f{}", i));
                lines.push("end".to_string());
                fn_defined.push(n.clone());
                model.insert(n.clone(), Kind::Func(format!("f{}", i)));
            }
            "ub" => {
                // an alias of a library command: unalias removes that one spelling, the command stays reachable under its
                // name and its other aliases
                let first = !builtin_gone;
                builtin_gone = true;
                lines.push(format!("{} = unalias array_add", rv));
                expect.push((rv.clone(), Some(first.to_string())));
                for (k, (q, want)) in [("array_push", "true"), ("std::collections::ArrayPush", "true"), ("array_put", "true"), ("array_add", "false")].iter().enumerate() {
                    let v2 = format!("{}x{}", rv, k);
                    lines.push(format!("{} = is_command_defined {}", v2, q));
                    expect.push((v2, Some(want.to_string())));
                }
            }
            "unalias" => {
                lines.push(format!("{} = unalias {}", rv, n));
                let is_alias = matches!(model.get(&n), Some(Kind::Alias(_)));
                if is_alias {
                    model.remove(&n);
                }
                expect.push((rv, Some(is_alias.to_string())));
            }
            "remove" => {
                lines.push(format!("{} = remove_command {}", rv, n));
                let existed = model.remove(&n).is_some();
                expect.push((rv, Some(existed.to_string())));
            }
            "defined" => {
                lines.push(format!("{} = is_command_defined {}", rv, n));
                expect.push((rv, Some(model.contains_key(&n).to_string())));
            }
            _ => {
                // a call (only of a name the model says is registered: an unknown command ends the run)
                match model.get(&n) {
                    Some(Kind::Alias(v)) => {
                        lines.push(format!("{} = {}", rv, n));
                        expect.push((rv, Some(v.clone())));
                    }
                    Some(Kind::Func(v)) => {
                        lines.push(format!("{} = {}", rv, n));
                        expect.push((rv, Some(v.clone())));
                    }
                    None => {}
                }
            }
        }
    }
    let script = lines.join("\n");
    let mut context = Context::new();
    duckscriptsdk::load(&mut context.commands).ok()?;
    match runner::run_script(&script, context, None) {
        Ok(ctx) => {
            for (k, v) in &expect {
                if ctx.variables.get(k) != v.as_ref() {
                    return Some(json!({"script": script, "what": "script-level registry operations disagree with the name table model", "variable": k, "model": v, "real": ctx.variables.get(k)}));
                }
            }
            // what is registered at the end
            for n in ["ka", "kb", "kc"] {
                if ctx.commands.exists(n) != model.contains_key(n) {
                    return Some(json!({"script": script, "what": "registered names at the end differ from the model", "name": n, "model": model.contains_key(n), "real": ctx.commands.exists(n)}));
                }
            }
            None
        }
        Err(e) => Some(json!({"script": script, "error": e.to_string()})),
    }
}

pub fn gen(r: &mut Rng) -> Value {
    if r.chance(1, 3) {
        return gen_script(r);
    }
    let pool = ["a", "b", "c", "d", "e"];
    let n = 2 + r.below(9);
    let mut ops = vec![];
    for _ in 0..n {
        match r.below(10) {
            0..=4 => {
                let name = r.pick(&pool).to_string();
                let k = r.below(3);
                let al: Vec<String> = (0..k).map(|_| r.pick(&pool).to_string()).collect();
                ops.push(json!({"op": "set", "name": name, "aliases": al}));
            }
            5 => ops.push(json!({"op": "remove", "x": r.pick(&pool)})),
            // the same removal asked for by a script (`remove_command x`): one alias step, exactly like Commands::remove
            6 => ops.push(json!({"op": "remove_cmd", "x": r.pick(&pool)})),
            7 => ops.push(json!({"op": "names"})),
            _ => ops.push(json!({"op": "get", "x": r.pick(&pool)})),
        }
    }
    json!({ "ops": ops })
}

pub fn run(input: &Value) -> Option<Value> {
    if input["kind"].as_str() == Some("script") {
        return run_script_level(input);
    }
    let mut real = Commands::new();
    // model: name -> id, alias -> name
    let mut names: BTreeMap<String, usize> = BTreeMap::new();
    let mut aliases: BTreeMap<String, String> = BTreeMap::new();
    for (i, op) in input["ops"].as_array()?.iter().enumerate() {
        match op["op"].as_str()? {
            "set" => {
                let name = op["name"].as_str()?.to_string();
                let al: Vec<String> = op["aliases"].as_array()?.iter().map(|a| a.as_str().unwrap().to_string()).collect();
                let refused = names.contains_key(&name) || al.iter().any(|a| aliases.contains_key(a));
                let got = real.set(Box::new(TestCmd { id: i, name: name.clone(), aliases: al.clone() }));
                if got.is_err() != refused {
                    return Some(json!({"step": i, "what": "set accepted/refused differs", "model_refused": refused}));
                }
                if !refused {
                    names.insert(name.clone(), i);
                    aliases.remove(&name);
                    for a in al {
                        aliases.insert(a, name.clone());
                    }
                }
            }
            "remove" => {
                let x = op["x"].as_str()?.to_string();
                let n = aliases.get(&x).cloned().unwrap_or(x.clone());
                let existed = names.remove(&n).is_some();
                if existed {
                    aliases.retain(|_, v| *v != n);
                }
                let got = real.remove(&x);
                if got != existed {
                    return Some(json!({"step": i, "what": "remove result differs", "model": existed}));
                }
            }
            "remove_cmd" => {
                let x = op["x"].as_str()?.to_string();
                let n = aliases.get(&x).cloned().unwrap_or(x.clone());
                let existed = names.remove(&n).is_some();
                if existed {
                    aliases.retain(|_, v| *v != n);
                }
                // run `remove_command x` on a context that holds this registry plus the library's remove command
                let mut lib = Commands::new();
                duckscriptsdk::load(&mut lib).ok()?;
                let rc = lib.get("remove_command")?.clone_and_box();
                let rc_name = rc.name();
                let mut context = duckscript::types::runtime::Context::new();
                context.commands = std::mem::replace(&mut real, Commands::new());
                context.commands.set(rc).ok()?;
                let context = match duckscript::runner::run_script(&format!("r = remove_command {}", x), context, None) {
                    Ok(c) => c,
                    Err(e) => return Some(json!({"step": i, "what": "remove_command failed", "error": e.to_string()})),
                };
                let got = context.variables.get("r").cloned();
                real = context.commands;
                real.remove(&rc_name);
                if got != Some(existed.to_string()) {
                    return Some(json!({"step": i, "what": "remove_command result differs", "model": existed, "real": got}));
                }
            }
            "names" => {
                // every registered name, each once, in sorted order
                let want: Vec<String> = names.keys().cloned().collect();
                let got = real.get_all_command_names();
                if got != want {
                    return Some(json!({"step": i, "what": "get_all_command_names differs from the sorted name table", "model": want, "real": got}));
                }
            }
            "get" => {
                let x = op["x"].as_str()?.to_string();
                let n = aliases.get(&x).cloned().unwrap_or(x.clone());
                let want = names.get(&n).cloned();
                let got = real.get(&x).map(|c| c.help().parse::<usize>().unwrap());
                if got != want || real.exists(&x) != want.is_some() {
                    return Some(json!({"step": i, "what": "lookup differs", "model": want, "real": got}));
                }
                // the lookup the runner uses must agree
                let got_use = real.get_for_use(&x).map(|c| c.help().parse::<usize>().unwrap());
                if got_use != want {
                    return Some(json!({"step": i, "what": "get_for_use (the runner's lookup) differs", "model": want, "real": got_use}));
                }
            }
            _ => return None,
        }
        // whole-view comparison after every operation
        let real_names: BTreeMap<String, usize> =
            real.commands.iter().map(|(k, v)| (k.clone(), v.help().parse::<usize>().unwrap())).collect();
        let real_aliases: BTreeMap<String, String> = real.aliases.iter().map(|(k, v)| (k.clone(), v.clone())).collect();
        if real_names != names || real_aliases != aliases {
            return Some(json!({"step": i, "what": "registry view differs from the name/alias model",
                "model_names": names, "real_names": real_names, "model_aliases": aliases, "real_aliases": real_aliases}));
        }
        // no alias ever points to a command that is gone
        for (a, n) in real.aliases.iter() {
            if !real.commands.contains_key(n) {
                return Some(json!({"step": i, "what": "dangling alias", "alias": a, "target": n}));
            }
        }
    }
    None
}
