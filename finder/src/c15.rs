//! C15: the registry against a name table + alias table model written from the statement.
use crate::rng::Rng;
use duckscript::types::command::{Command, Commands};
use serde_json::{json, Value};
use std::collections::BTreeMap;

#[derive(Clone)]
struct TestCmd {
    id: usize,
    name: String,
    aliases: Vec<String>,
}
impl Command for TestCmd {
    fn name(&self) -> String {
        self.name.clone()
    }
    fn aliases(&self) -> Vec<String> {
        self.aliases.clone()
    }
    fn help(&self) -> String {
        format!("{}", self.id)
    }
    fn clone_and_box(&self) -> Box<dyn Command> {
        Box::new(self.clone())
    }
}

pub fn gen(r: &mut Rng) -> Value {
    let pool = ["a", "b", "c", "d", "e"];
    let n = 2 + r.below(9);
    let mut ops = vec![];
    for _ in 0..n {
        match r.below(10) {
            0..=4 => {
                let name = r.pick(&pool).to_string();
                let k = r.below(3);
                let al: Vec<String> = (0..k).map(|_| r.pick(&pool).to_string()).collect();
                ops.push(json!({"op": "set", "name": name, "aliases": al}));
            }
            5..=7 => ops.push(json!({"op": "remove", "x": r.pick(&pool)})),
            _ => ops.push(json!({"op": "get", "x": r.pick(&pool)})),
        }
    }
    json!({ "ops": ops })
}

pub fn run(input: &Value) -> Option<Value> {
    let mut real = Commands::new();
    // model: name -> id, alias -> name
    let mut names: BTreeMap<String, usize> = BTreeMap::new();
    let mut aliases: BTreeMap<String, String> = BTreeMap::new();
    for (i, op) in input["ops"].as_array()?.iter().enumerate() {
        match op["op"].as_str()? {
            "set" => {
                let name = op["name"].as_str()?.to_string();
                let al: Vec<String> = op["aliases"].as_array()?.iter().map(|a| a.as_str().unwrap().to_string()).collect();
                let refused = names.contains_key(&name) || al.iter().any(|a| aliases.contains_key(a));
                let got = real.set(Box::new(TestCmd { id: i, name: name.clone(), aliases: al.clone() }));
                if got.is_err() != refused {
                    return Some(json!({"step": i, "what": "set accepted/refused differs", "model_refused": refused}));
                }
                if !refused {
                    names.insert(name.clone(), i);
                    aliases.remove(&name);
                    for a in al {
                        aliases.insert(a, name.clone());
                    }
                }
            }
            "remove" => {
                let x = op["x"].as_str()?.to_string();
                let n = aliases.get(&x).cloned().unwrap_or(x.clone());
                let existed = names.remove(&n).is_some();
                if existed {
                    aliases.retain(|_, v| *v != n);
                }
                let got = real.remove(&x);
                if got != existed {
                    return Some(json!({"step": i, "what": "remove result differs", "model": existed}));
                }
            }
            "get" => {
                let x = op["x"].as_str()?.to_string();
                let n = aliases.get(&x).cloned().unwrap_or(x.clone());
                let want = names.get(&n).cloned();
                let got = real.get(&x).map(|c| c.help().parse::<usize>().unwrap());
                if got != want || real.exists(&x) != want.is_some() {
                    return Some(json!({"step": i, "what": "lookup differs", "model": want, "real": got}));
                }
                // the lookup the runner uses must agree
                let got_use = real.get_for_use(&x).map(|c| c.help().parse::<usize>().unwrap());
                if got_use != want {
                    return Some(json!({"step": i, "what": "get_for_use (the runner's lookup) differs", "model": want, "real": got_use}));
                }
            }
            _ => return None,
        }
        // whole-view comparison after every operation
        let real_names: BTreeMap<String, usize> =
            real.commands.iter().map(|(k, v)| (k.clone(), v.help().parse::<usize>().unwrap())).collect();
        let real_aliases: BTreeMap<String, String> = real.aliases.iter().map(|(k, v)| (k.clone(), v.clone())).collect();
        if real_names != names || real_aliases != aliases {
            return Some(json!({"step": i, "what": "registry view differs from the name/alias model",
                "model_names": names, "real_names": real_names, "model_aliases": aliases, "real_aliases": real_aliases}));
        }
        // no alias ever points to a command that is gone
        for (a, n) in real.aliases.iter() {
            if !real.commands.contains_key(n) {
                return Some(json!({"step": i, "what": "dangling alias", "alias": a, "target": n}));
            }
        }
    }
    None
}
