//! C16 (text commands): length / indexof / last_indexof / contains / starts_with / ends_with / substring
//! against the plain Rust string operations, positions and lengths in one unit (bytes).
use crate::rng::Rng;
use duckscript::runner;
use duckscript::types::runtime::Context;
use serde_json::{json, Value};

pub fn gen(r: &mut Rng) -> Value {
    let pieces = ["a", "b", "é", "日", " ", "ab", "x", "-"];
    let mk = |r: &mut Rng, n: usize| -> String { (0..n).map(|_| r.pick(&pieces).to_string()).collect() };
    let (a, b, c) = (r.below(4), 1 + r.below(2), r.below(3));
    let prefix = mk(r, a);
    let needle = mk(r, b);
    let suffix = mk(r, c);
    // an unrelated second text (may be longer than the first, may end inside one of its characters byte-wise)
    let d = r.below(6);
    let other = mk(r, d);
    json!({"prefix": prefix, "needle": needle, "suffix": suffix, "other": other})
}

pub fn run(input: &Value) -> Option<Value> {
    let prefix = input["prefix"].as_str()?;
    let needle = input["needle"].as_str()?;
    let suffix = input["suffix"].as_str()?;
    let s = format!("{}{}{}", prefix, needle, suffix);
    let script = format!(
        "len = length \"{s}\"\nidx = indexof \"{s}\" \"{n}\"\nlidx = last_indexof \"{s}\" \"{n}\"\nhas = contains \"{s}\" \"{n}\"\nsw = starts_with \"{s}\" \"{p}\"\new = ends_with \"{s}\" \"{x}\"\nplen = length \"{p}\"\n",
        s = s, n = needle, p = prefix, x = suffix
    );
    let other = input["other"].as_str().unwrap_or("");
    let script = format!("{}sw2 = starts_with \"{s}\" \"{t}\"\new2 = ends_with \"{s}\" \"{t}\"\nhas2 = contains \"{s}\" \"{t}\"\nsw3 = starts_with \"{t}\" \"{s}\"\new3 = ends_with \"{t}\" \"{s}\"\nidx2 = indexof \"{s}\" \"{t}\"\n", script, s = s, t = other);
    let mut context = Context::new();
    duckscriptsdk::load(&mut context.commands).ok()?;
    let ctx = match runner::run_script(&script, context, None) {
        Ok(c) => c,
        Err(e) => return Some(json!({"script": script, "error": e.to_string()})),
    };
    let get = |k: &str| ctx.variables.get(k).cloned();
    let mut bad = vec![];
    if get("len") != Some(s.len().to_string()) {
        bad.push(json!({"what": "length", "expected": s.len(), "real": get("len")}));
    }
    if get("plen") != Some(prefix.len().to_string()) {
        bad.push(json!({"what": "length(prefix)", "expected": prefix.len(), "real": get("plen")}));
    }
    if get("idx") != s.find(needle).map(|i| i.to_string()) {
        bad.push(json!({"what": "indexof", "expected": s.find(needle), "real": get("idx")}));
    }
    if get("lidx") != s.rfind(needle).map(|i| i.to_string()) {
        bad.push(json!({"what": "last_indexof", "expected": s.rfind(needle), "real": get("lidx")}));
    }
    if get("has") != Some(s.contains(needle).to_string()) {
        bad.push(json!({"what": "contains"}));
    }
    for (k, want) in [("sw2", s.starts_with(other)), ("ew2", s.ends_with(other)), ("has2", s.contains(other)), ("sw3", other.starts_with(s.as_str())), ("ew3", other.ends_with(s.as_str()))] {
        if get(k) != Some(want.to_string()) {
            bad.push(json!({"what": k, "text": s, "other": other, "expected": want, "real": get(k)}));
        }
    }
    if !other.is_empty() && get("idx2") != s.find(other).map(|i| i.to_string()) {
        bad.push(json!({"what": "indexof (unrelated needle)", "expected": s.find(other), "real": get("idx2")}));
    }
    if !prefix.is_empty() && get("sw") != Some("true".to_string()) {
        bad.push(json!({"what": "starts_with"}));
    }
    if !suffix.is_empty() && get("ew") != Some("true".to_string()) {
        bad.push(json!({"what": "ends_with"}));
    }
    // one consistent unit: substring(s, 0, indexof(s, needle)) followed by needle is a prefix of s
    if let Some(i) = s.find(needle) {
        if i > 0 && i < s.len() {
            let sc = format!("pre = substring \"{}\" 0 {}\n", s, i);
            let mut c2 = Context::new();
            duckscriptsdk::load(&mut c2.commands).ok()?;
            if let Ok(c) = runner::run_script(&sc, c2, None) {
                let pre = c.variables.get("pre").cloned().unwrap_or_default();
                if !s.starts_with(&format!("{}{}", pre, needle)) || pre != s[..i] {
                    bad.push(json!({"what": "substring/indexof unit mismatch", "pre": pre}));
                }
            }
        }
    }
    if bad.is_empty() {
        None
    } else {
        Some(json!({"script": script, "string": s, "mismatches": bad}))
    }
}
