//! C05: functions (arguments, return values, early return from nested constructs, repeated calls)
//! against a tree-walking interpreter. Function bodies reuse the C04 program generator plus `return`.
use crate::c04;
use crate::rng::Rng;
use duckscript::runner;
use duckscript::types::runtime::Context;
use serde_json::{json, Value};
use std::collections::BTreeMap;

pub fn gen(r: &mut Rng) -> Value {
    let mut c = 100;
    let mut budget = 8;
    let body = c04::gen_block_ret(r, 0, &mut c, &mut budget, true);
    let ncalls = 1 + r.below(3);
    // output variables are drawn from a small pool, so they are reused across calls and may already be defined
    let calls: Vec<Value> = (0..ncalls).map(|i| {
        // 1..3 arguments; some are written as an empty string or as a reference to an undefined variable
        let n = 1 + r.below(3);
        let args: Vec<Value> = (0..n).map(|k| match r.below(6) { 0 => json!(["\"\"", ""]), 1 => json!(["${nope}", ""]), _ => json!([format!("a{}{}", i, k), format!("a{}{}", i, k)]) }).collect();
        json!({"out": if r.chance(3, 4) { json!(format!("o{}", r.below(2))) } else { Value::Null }, "args": args})
    }).collect();
    json!({ "body": body, "calls": calls, "scoped": r.chance(1, 3), "preset": r.chance(1, 2) })
}

fn ret_inside_for(block: &Vec<Value>, in_for: bool) -> bool {
    for s in block {
        match s["k"].as_str().unwrap_or("") {
            "ret" => {
                if in_for {
                    return true;
                }
            }
            "for" => {
                if ret_inside_for(&s["body"].as_array().unwrap().clone(), true) {
                    return true;
                }
            }
            "while" => {
                if ret_inside_for(&s["body"].as_array().unwrap().clone(), in_for) {
                    return true;
                }
            }
            "if" => {
                for b in s["bodies"].as_array().unwrap() {
                    if ret_inside_for(&b.as_array().unwrap().clone(), in_for) {
                        return true;
                    }
                }
                if let Some(e) = s["else"].as_array() {
                    if ret_inside_for(e, in_for) {
                        return true;
                    }
                }
            }
            _ => {}
        }
    }
    false
}

/// structural class of an input, used to tell a listed known finding from a new violation
pub fn class_of(input: &Value) -> &'static str {
    let body = input["body"].as_array().cloned().unwrap_or_default();
    let ncalls = input["calls"].as_array().map(|c| c.len()).unwrap_or(0);
    if ncalls > 1 && ret_inside_for(&body, false) {
        "return-inside-for-then-called-again"
    } else {
        "other"
    }
}

pub fn run(input: &Value) -> Option<Value> {
    run_inner(input).map(|mut d| {
        d["class"] = json!(class_of(input));
        d
    })
}

fn run_inner(input: &Value) -> Option<Value> {
    let body = input["body"].as_array()?.clone();
    let calls = input["calls"].as_array()?.clone();
    let scoped = input["scoped"].as_bool().unwrap_or(false);
    let mut lines = vec![if scoped { "fn <scope> f".to_string() } else { "fn f".to_string() }, "trace = set \"${trace} in:${1},${2},${3}\"".to_string()];
    c04::render(&body, &mut lines);
    lines.push("end".to_string());
    if input["preset"].as_bool().unwrap_or(false) {
        lines.push("o0 = set old".to_string());
    }
    for c in &calls {
        let arg: Vec<String> = c["args"].as_array()?.iter().map(|a| a[0].as_str().unwrap_or("").to_string()).collect();
        let arg = arg.join(" ");
        match c["out"].as_str() {
            Some(o) => lines.push(format!("{} = f {}", o, arg)),
            None => lines.push(format!("f {}", arg)),
        }
    }
    let script = lines.join("\n");
    // model
    let mut vars: BTreeMap<String, String> = BTreeMap::new();
    let mut steps = 0;
    if input["preset"].as_bool().unwrap_or(false) {
        vars.insert("o0".to_string(), "old".to_string());
    }
    for c in &calls {
        let args: Vec<String> = c["args"].as_array()?.iter().map(|a| a[1].as_str().unwrap_or("").to_string()).collect();
        // the call instruction first clears its output variable (command result without value)
        let saved = vars.clone();
        if scoped {
            vars.clear();
        }
        if let Some(o) = c["out"].as_str() {
            vars.remove(o);
        }
        for (k, a) in args.iter().enumerate() {
            vars.insert((k + 1).to_string(), a.clone());
        }
        let t = vars.get("trace").cloned().unwrap_or_default();
        let g = |vars: &BTreeMap<String, String>, k: &str| vars.get(k).cloned().unwrap_or_default();
        let tr = format!("{} in:{},{},{}", t, g(&vars, "1"), g(&vars, "2"), g(&vars, "3"));
        vars.insert("trace".to_string(), tr);
        let rv = c04::interp_ret(&body, &mut vars, &mut steps);
        if scoped {
            // the caller's variables are exactly as before the call (plus the output variable, below)
            vars = saved;
        }
        if let Some(o) = c["out"].as_str() {
            match rv {
                Some(Some(v)) => {
                    vars.insert(o.to_string(), v);
                }
                _ => {
                    // corner left open by the statement: a <scope> call without a value keeps the caller's
                    // old value of the output variable (the saved map is restored as it was)
                    if !scoped {
                        vars.remove(o);
                    }
                }
            }
        }
    }
    if steps > 5000 {
        return None;
    }
    let mut context = Context::new();
    duckscriptsdk::load(&mut context.commands).ok()?;
    context.commands.set(Box::new(c04::Probe {})).ok()?;
    match runner::run_script(&script, context, None) {
        Ok(ctx) => {
            let real: BTreeMap<String, String> = ctx.variables.iter().filter(|(k, _)| !k.starts_with('h')).map(|(k, v)| (k.clone(), v.clone())).collect();
            let vars: BTreeMap<String, String> = vars.into_iter().filter(|(k, _)| !k.starts_with('h')).collect();
            if real != vars {
                Some(json!({"script": script, "what": "trace / outputs / final variables differ from the interpreter", "model": vars, "real": real}))
            } else {
                None
            }
        }
        Err(e) => Some(json!({"script": script, "error": e.to_string(), "model": vars})),
    }
}
