//! C05: functions (arguments, return values, early return from nested constructs, repeated calls)
//! against a tree-walking interpreter. Function bodies reuse the C04 program generator plus `return`.
use crate::c04;
use crate::rng::Rng;
use duckscript::runner;
use duckscript::types::command::{Command, CommandInvocationContext, CommandResult};
use duckscript::types::runtime::{Context, StateValue};
use serde_json::{json, Value};
use std::collections::BTreeMap;

/// `tlog <text..>`: appends to a trace kept in the context state, so it is seen across <scope> calls
#[derive(Clone)]
pub struct TLog {}
impl Command for TLog {
    fn name(&self) -> String {
        "tlog".to_string()
    }
    fn clone_and_box(&self) -> Box<dyn Command> {
        Box::new(self.clone())
    }
    fn run(&self, context: CommandInvocationContext) -> CommandResult {
        let t = match context.state.get("vtrace") {
            Some(StateValue::String(s)) => s.clone(),
            _ => String::new(),
        };
        context.state.insert("vtrace".to_string(), StateValue::String(format!("{} {}", t, context.arguments.join(","))));
        CommandResult::Continue(None)
    }
}

fn truthy(v: &Option<String>) -> bool {
    match v {
        Some(s) => {
            let l = s.to_lowercase();
            !(l.is_empty() || l == "0" || l == "false" || l == "no")
        }
        None => false,
    }
}

/// a call in condition position (if / elseif / not / while / inside another function used as a condition)
fn gen_cond(r: &mut Rng) -> Value {
    let vals = ["true", "false", "abc", "0", "no", "YES"];
    let forms = ["if", "elseif", "not", "while", "nested", "assign", "args", "args"];
    let form = forms[r.below(8)];
    let pads = [" ", "  ", " ab ", "a b", "", "x", "\t", "ab "];
    let (p1, p2) = (pads[r.below(8)], pads[r.below(8)]);
    json!({"kind": "cond", "scoped": r.chance(1, 3),
        "stale": if r.chance(2, 3) { json!(vals[r.below(3)]) } else { Value::Null },
        "log": r.chance(1, 2),
        "end": match r.below(4) { 0 => json!("fall"), 1 => json!("bare"), _ => json!(vals[r.below(vals.len())]) },
        "form": form, "p1": p1, "p2": p2})
}

/// a function that calls itself from inside a for-in loop; the innermost call may leave through `return`
fn gen_rec(r: &mut Rng) -> Value {
    let n = 1 + r.below(3);
    let depth = 2 + r.below(2);
    json!({"kind": "rec", "scoped": r.chance(2, 3), "n": n, "depth": depth,
        "ret_item": if r.chance(3, 4) { json!(r.below(n)) } else { Value::Null },
        "ret_value": r.chance(3, 4)})
}

fn run_logged(script: &str, expected_log: &str, expected_vars: &[(&str, Option<String>)]) -> Option<Value> {
    let mut context = Context::new();
    duckscriptsdk::load(&mut context.commands).ok()?;
    context.commands.set(Box::new(TLog {})).ok()?;
    // a misdirected jump may loop for ever: stop the run through the halt flag after a while
    let halt = std::sync::Arc::new(std::sync::atomic::AtomicBool::new(false));
    let h2 = halt.clone();
    std::thread::spawn(move || {
        std::thread::sleep(std::time::Duration::from_millis(500));
        h2.store(true, std::sync::atomic::Ordering::SeqCst);
    });
    let env = duckscript::types::env::Env::new(None, None, Some(halt.clone()));
    match runner::run_script(script, context, Some(env)) {
        Ok(ctx) => {
            let log = match ctx.state.get("vtrace") {
                Some(StateValue::String(s)) => s.clone(),
                _ => String::new(),
            };
            let halted = halt.load(std::sync::atomic::Ordering::SeqCst);
            let mut bad = vec![];
            for (k, v) in expected_vars {
                if ctx.variables.get(*k) != v.as_ref() {
                    bad.push(json!({"var": k, "model": v, "real": ctx.variables.get(*k)}));
                }
            }
            if log != expected_log || !bad.is_empty() {
                let shown: String = log.chars().take(400).collect();
                Some(json!({"script": script, "what": if halted && log.len() > expected_log.len() { "the run did not end by itself (stopped through the halt flag); trace differs" } else { "trace / outputs differ from the model" },
                    "model_log": expected_log, "real_log": shown, "vars": bad}))
            } else {
                None
            }
        }
        Err(e) => Some(json!({"script": script, "error": e.to_string(), "model_log": expected_log})),
    }
}

fn run_cond(input: &Value) -> Option<Value> {
    let scoped = input["scoped"].as_bool().unwrap_or(false);
    let form = input["form"].as_str()?;
    let end = input["end"].as_str()?;
    if form == "args" {
        // a call in condition position: the body sees the argument VALUES (blank-only, padded, empty ones included)
        let (p1, p2) = (input["p1"].as_str()?, input["p2"].as_str()?);
        let q = |v: &str| format!("\"{}\"", v.replace('\t', "\\t"));
        let l = vec![
            if scoped { "fn <scope> f".to_string() } else { "fn f".to_string() },
            "tlog \"[${1}][${2}][${3}]\"".to_string(),
            "return true".to_string(),
            "end".to_string(),
            format!("p1 = set {}", q(p1)),
            format!("p2 = set {}", q(p2)),
            "if f ${p1} ${p2} last".to_string(),
            "tlog yes".to_string(),
            "end".to_string(),
            "r = not f ${p2} ${p1} last".to_string(),
        ];
        let log = format!(" [{}][{}][last] yes [{}][{}][last]", p1, p2, p2, p1);
        return run_logged(&l.join("\n"), &log, &[("r", Some("false".to_string()))]);
    }
    let mut l = vec![if scoped { "fn <scope> f".to_string() } else { "fn f".to_string() }];
    if let Some(st) = input["stale"].as_str() {
        l.push(format!("v = set {}", st));
    }
    let logged = input["log"].as_bool().unwrap_or(false);
    if logged {
        l.push("tlog f".to_string());
    }
    if form == "while" {
        // first call (argument 0) has the value true, the second ends as configured
        l.push("if equals ${1} 0".to_string());
        l.push("return true".to_string());
        l.push("end".to_string());
    }
    match end {
        "fall" => {}
        "bare" => l.push("return".to_string()),
        v => l.push(format!("return {}", v)),
    }
    l.push("end".to_string());
    let value: Option<String> = match end {
        "fall" | "bare" => None,
        v => Some(v.to_string()),
    };
    let t = truthy(&value);
    let f = if logged { " f" } else { "" };
    let mut log = String::new();
    let mut vars: Vec<(&str, Option<String>)> = vec![];
    match form {
        "if" => {
            l.extend(["if f a", "tlog yes", "else", "tlog no", "end"].iter().map(|s| s.to_string()));
            log = format!("{} {}", f, if t { "yes" } else { "no" });
        }
        "elseif" => {
            l.extend(["if false", "tlog first", "elseif f a", "tlog yes", "else", "tlog no", "end"].iter().map(|s| s.to_string()));
            log = format!("{} {}", f, if t { "yes" } else { "no" });
        }
        "not" => {
            l.extend(["r = not f a", "tlog not:${r}"].iter().map(|s| s.to_string()));
            log = format!("{} not:{}", f, if t { "false" } else { "true" });
            vars.push(("r", Some(if t { "false" } else { "true" }.to_string())));
        }
        "while" => {
            l.extend(["n = set 0", "while f ${n}", "tlog body", "n = calc ${n} + 1", "if greater_than ${n} 3", "tlog runaway", "n = set 0", "goto :out", "end", "end", ":out tlog after"].iter().map(|s| s.to_string()));
            // the guard stops a loop that the model says ends: calls with 0, then 1, 2, 3 while the value is true
            let mut lg = String::new();
            let mut n = 0;
            loop {
                lg.push_str(f);
                let val = if n == 0 { true } else { t };
                if !val {
                    break;
                }
                lg.push_str(" body");
                n += 1;
                if n > 3 {
                    lg.push_str(" runaway");
                    break;
                }
            }
            lg.push_str(" after");
            log = lg;
        }
        "nested" => {
            l.extend(["fn g", "if f a", "return in", "end", "end", "o = g", "tlog o:${o}", "if g", "tlog yes", "else", "tlog no", "end"].iter().map(|s| s.to_string()));
            log = format!("{} o:{}{} {}", f, if t { "in" } else { "" }, f, if t { "yes" } else { "no" });
            vars.push(("o", if t { Some("in".to_string()) } else { None }));
        }
        _ => {
            l.extend(["o = set old", "o = f a", "tlog o:${o}"].iter().map(|s| s.to_string()));
            let kept = scoped && value.is_none();
            let ov = if kept { Some("old".to_string()) } else { value.clone() };
            log = format!("{} o:{}", f, ov.clone().unwrap_or_default());
            vars.push(("o", ov));
        }
    }
    run_logged(&l.join("\n"), &log, &vars)
}

struct Rec {
    scoped: bool,
    items: Vec<String>,
    depth: usize,
    ret_item: Option<String>,
    ret_value: bool,
}

fn model_walk(c: &Rec, vars: &mut BTreeMap<String, String>, log: &mut String, level: String, steps: &mut usize) -> Option<String> {
    let saved = vars.clone();
    if c.scoped {
        vars.clear();
    }
    vars.insert("1".to_string(), level);
    let g = |vars: &BTreeMap<String, String>, k: &str| vars.get(k).cloned().unwrap_or_default();
    let mut result = None;
    let mut returned = false;
    let l1 = g(vars, "1");
    vars.insert("lvl".to_string(), l1);
    for it in &c.items {
        *steps += 1;
        if *steps > 400 {
            break;
        }
        vars.insert("item".to_string(), it.clone());
        log.push_str(&format!(" {}:{}", g(vars, "lvl"), it));
        if g(vars, "lvl") == c.depth.to_string() {
            if c.ret_item.as_ref() == Some(it) {
                result = if c.ret_value { Some(format!("r{}", it)) } else { None };
                returned = true;
                break;
            }
        } else {
            let nxt = g(vars, "lvl").parse::<usize>().unwrap_or(0) + 1;
            vars.insert("nxt".to_string(), nxt.to_string());
            match model_walk(c, vars, log, nxt.to_string(), steps) {
                Some(v) => {
                    vars.insert("r".to_string(), v);
                }
                None => {
                    // a <scope> call without a value leaves the caller's old value of the output variable
                    if !c.scoped {
                        vars.remove("r");
                    }
                }
            }
            log.push_str(&format!(" {}<{}", g(vars, "lvl"), g(vars, "r")));
        }
    }
    if !returned {
        log.push_str(&format!(" {}:done", g(vars, "lvl")));
    }
    if c.scoped {
        *vars = saved;
    }
    result
}

fn run_rec(input: &Value) -> Option<Value> {
    let names = ["a", "b", "c"];
    let n = input["n"].as_u64()? as usize;
    let c = Rec {
        scoped: input["scoped"].as_bool().unwrap_or(true),
        items: names[..n.min(3)].iter().map(|s| s.to_string()).collect(),
        depth: input["depth"].as_u64()? as usize,
        ret_item: input["ret_item"].as_u64().map(|k| names[(k as usize).min(2)].to_string()),
        ret_value: input["ret_value"].as_bool().unwrap_or(true),
    };
    let mut l = vec![if c.scoped { "fn <scope> walk".to_string() } else { "fn walk".to_string() }];
    l.push("lvl = set ${1}".to_string());
    l.push("for item in ${2}".to_string());
    l.push("tlog ${lvl}:${item}".to_string());
    l.push(format!("if equals ${{lvl}} {}", c.depth));
    if let Some(ri) = &c.ret_item {
        l.push(format!("if equals ${{item}} {}", ri));
        l.push(if c.ret_value { "return r${item}".to_string() } else { "return".to_string() });
        l.push("end".to_string());
    }
    l.push("else".to_string());
    l.push("nxt = calc ${lvl} + 1".to_string());
    l.push("r = walk ${nxt} ${2}".to_string());
    l.push("tlog ${lvl}<${r}".to_string());
    l.push("end".to_string());
    l.push("end".to_string());
    l.push("tlog ${lvl}:done".to_string());
    l.push("end".to_string());
    l.push(format!("list = array {}", c.items.join(" ")));
    l.push("x = walk 1 ${list}".to_string());
    l.push("tlog top:${x}".to_string());
    let mut vars = BTreeMap::new();
    let mut log = String::new();
    let mut steps = 0;
    let x = model_walk(&c, &mut vars, &mut log, "1".to_string(), &mut steps);
    if steps > 400 {
        return None;
    }
    log.push_str(&format!(" top:{}", x.clone().unwrap_or_default()));
    run_logged(&l.join("\n"), &log, &[("x", x)])
}

pub fn gen(r: &mut Rng) -> Value {
    if r.chance(1, 25) {
        // a function called through an alias of it (`alias af f` ; `out = af a1`): still a call of f
        return json!({"kind": "alias_call", "scoped": r.chance(1, 2), "arg": r.pick(&["a1", "x y", ""]), "ret": r.pick(&["r1", "", "two words"])});
    }
    match r.below(5) {
        0 => return gen_cond(r),
        1 => return gen_rec(r),
        _ => {}
    }
    let mut c = 100;
    let mut budget = 8;
    let body = c04::gen_block_ret(r, 0, &mut c, &mut budget, true);
    let ncalls = 1 + r.below(3);
    // output variables are drawn from a small pool, so they are reused across calls and may already be defined
    let calls: Vec<Value> = (0..ncalls).map(|i| {
        // 1..3 arguments; some are written as an empty string or as a reference to an undefined variable
        let n = 1 + r.below(3);
        let args: Vec<Value> = (0..n).map(|k| match r.below(6) { 0 => json!(["\"\"", ""]), 1 => json!(["${nope}", ""]), _ => json!([format!("a{}{}", i, k), format!("a{}{}", i, k)]) }).collect();
        // some calls are made from inside a for-in loop of the caller (the callee may leave its own loops through return)
        let lp = if i > 0 && r.chance(1, 3) { 1 + r.below(3) } else { 0 };
        // (rarely the output variable is named like a positional parameter)
        let out = if r.chance(1, 25) { json!(["1", "2"][r.below(2)]) } else if r.chance(3, 4) { json!(format!("o{}", r.below(2))) } else { Value::Null };
        json!({"out": out, "args": args, "loop": lp})
    }).collect();
    json!({ "body": body, "calls": calls, "scoped": r.chance(1, 3), "preset": r.chance(1, 2), "deco": if r.chance(1, 2) { r.next() % 1000000 + 1 } else { 0 } })
}

fn ret_inside_for(block: &Vec<Value>, in_for: bool) -> bool {
    for s in block {
        match s["k"].as_str().unwrap_or("") {
            "ret" => {
                if in_for {
                    return true;
                }
            }
            "for" => {
                if ret_inside_for(&s["body"].as_array().unwrap().clone(), true) {
                    return true;
                }
            }
            "while" => {
                if ret_inside_for(&s["body"].as_array().unwrap().clone(), in_for) {
                    return true;
                }
            }
            "if" => {
                for b in s["bodies"].as_array().unwrap() {
                    if ret_inside_for(&b.as_array().unwrap().clone(), in_for) {
                        return true;
                    }
                }
                if let Some(e) = s["else"].as_array() {
                    if ret_inside_for(e, in_for) {
                        return true;
                    }
                }
            }
            _ => {}
        }
    }
    false
}

/// structural class of an input, used to tell a listed known finding from a new violation
/// `alias af f` ; `out = af <arg>`: the call binds ${1}, runs the body once, stores the returned value and resumes
/// after the call line. A watchdog raises the halt flag after 2 s so that a run that never ends by itself is observed.
fn run_alias_call(input: &Value) -> Option<Value> {
    use duckscript::types::env::Env;
    use std::sync::atomic::{AtomicBool, Ordering};
    use std::sync::Arc;
    let scoped = input["scoped"].as_bool()?;
    let arg = input["arg"].as_str()?;
    let ret = input["ret"].as_str()?;
    let script = format!("count = set 0\nfn {}f\ncount = calc ${{count}} + 1\nseen = set \"${{1}}\"\nreturn \"{}\"\nend\nalias af f\nout = af \"{}\"\nafter = set reached\n",
        if scoped { "<scope> " } else { "" }, ret, arg);
    let mut context = Context::new();
    duckscriptsdk::load(&mut context.commands).ok()?;
    let halt = Arc::new(AtomicBool::new(false));
    let h2 = halt.clone();
    let done = Arc::new(AtomicBool::new(false));
    let d2 = done.clone();
    let dog = std::thread::spawn(move || {
        for _ in 0..200 {
            std::thread::sleep(std::time::Duration::from_millis(10));
            if d2.load(Ordering::SeqCst) { return; }
        }
        h2.store(true, Ordering::SeqCst);
    });
    let env = Env::new(Some(Box::new(std::io::sink())), Some(Box::new(std::io::sink())), Some(halt.clone()));
    let res = runner::run_script(&script, context, Some(env));
    done.store(true, Ordering::SeqCst);
    let _ = dog.join();
    if halt.load(Ordering::SeqCst) {
        return Some(json!({"script": script, "what": "a function called through an alias: the run never ends by itself (stopped by the embedder's halt flag after 2 s)"}));
    }
    match res {
        Err(e) => Some(json!({"script": script, "error": e.to_string()})),
        Ok(ctx) => {
            let get = |k: &str| ctx.variables.get(k).cloned();
            let want_out = if ret.is_empty() { None } else { Some(ret.to_string()) };
            // (unscoped: the body's `seen` / `count` are the caller's variables)
            let ok = get("out") == want_out && get("after") == Some("reached".to_string()) && (scoped || (get("count") == Some("1".to_string()) && get("seen").unwrap_or_default() == arg));
            if ok { None } else { Some(json!({"script": script, "what": "a function called through an alias did not behave like a call of it", "out": get("out"), "after": get("after"), "count": get("count"), "seen": get("seen")})) }
        }
    }
}

pub fn class_of(input: &Value) -> &'static str {
    let body = input["body"].as_array().cloned().unwrap_or_default();
    let ncalls = input["calls"].as_array().map(|c| c.len()).unwrap_or(0);
    if input["kind"].as_str() == Some("alias_call") {
        return "function-called-through-an-alias";
    }
    let positional_out = input["calls"].as_array().map(|cs| cs.iter().any(|c| matches!(c["out"].as_str(), Some("1") | Some("2") | Some("3")))).unwrap_or(false);
    if positional_out {
        "output-variable-named-like-a-positional-argument"
    } else if ncalls > 1 && ret_inside_for(&body, false) {
        "return-inside-for-then-called-again"
    } else {
        "other"
    }
}

pub fn run(input: &Value) -> Option<Value> {
    run_inner(input).map(|mut d| {
        d["class"] = json!(class_of(input));
        d
    })
}

fn run_inner(input: &Value) -> Option<Value> {
    match input["kind"].as_str() {
        Some("alias_call") => return run_alias_call(input),
        Some("cond") => return run_cond(input),
        Some("rec") => return run_rec(input),
        _ => {}
    }
    let body = input["body"].as_array()?.clone();
    let calls = input["calls"].as_array()?.clone();
    let scoped = input["scoped"].as_bool().unwrap_or(false);
    let mut lines = vec!["fn g".to_string(), "trace = set \"${trace} g:${1}\"".to_string(), "return gv${1}".to_string(), "end".to_string(),
        if scoped { "fn <scope> f".to_string() } else { "fn f".to_string() }, "trace = set \"${trace} in:${1},${2},${3}\"".to_string()];
    c04::render(&body, &mut lines);
    lines.push("end".to_string());
    if input["preset"].as_bool().unwrap_or(false) {
        lines.push("o0 = set old".to_string());
    }
    for (ci, c) in calls.iter().enumerate() {
        let arg: Vec<String> = c["args"].as_array()?.iter().map(|a| a[0].as_str().unwrap_or("").to_string()).collect();
        let arg = arg.join(" ");
        let lp = c["loop"].as_u64().unwrap_or(0);
        if lp > 0 {
            lines.push(format!("hd{} = range 0 {}", ci, lp));
            lines.push(format!("for hx{} in ${{hd{}}}", ci, ci));
        }
        match c["out"].as_str() {
            Some(o) => lines.push(format!("{} = f {}", o, arg)),
            None => lines.push(format!("f {}", arg)),
        }
        if lp > 0 {
            lines.push("end".to_string());
            lines.push(format!("release ${{hd{}}}", ci));
        }
    }
    let script = crate::deco::decorate(&lines, input["deco"].as_u64().unwrap_or(0)).join("\n");
    // a call made from inside a loop of the caller is that call, once per iteration
    let calls: Vec<Value> = calls.iter().flat_map(|c| std::iter::repeat(c.clone()).take(std::cmp::max(1, c["loop"].as_u64().unwrap_or(0)) as usize)).collect();
    // model
    let mut vars: BTreeMap<String, String> = BTreeMap::new();
    let mut steps = 0;
    if input["preset"].as_bool().unwrap_or(false) {
        vars.insert("o0".to_string(), "old".to_string());
    }
    for c in &calls {
        let args: Vec<String> = c["args"].as_array()?.iter().map(|a| a[1].as_str().unwrap_or("").to_string()).collect();
        // the call instruction first clears its output variable (command result without value)
        let saved = vars.clone();
        if scoped {
            vars.clear();
        }
        if let Some(o) = c["out"].as_str() {
            vars.remove(o);
        }
        for (k, a) in args.iter().enumerate() {
            vars.insert((k + 1).to_string(), a.clone());
        }
        let t = vars.get("trace").cloned().unwrap_or_default();
        let g = |vars: &BTreeMap<String, String>, k: &str| vars.get(k).cloned().unwrap_or_default();
        let tr = format!("{} in:{},{},{}", t, g(&vars, "1"), g(&vars, "2"), g(&vars, "3"));
        vars.insert("trace".to_string(), tr);
        let rv = c04::interp_ret(&body, &mut vars, &mut steps);
        if scoped {
            // the caller's variables are exactly as before the call (plus the output variable, below)
            vars = saved;
        }
        if let Some(o) = c["out"].as_str() {
            match rv {
                Some(Some(v)) => {
                    vars.insert(o.to_string(), v);
                }
                _ => {
                    // corner left open by the statement: a <scope> call without a value keeps the caller's
                    // old value of the output variable (the saved map is restored as it was)
                    if !scoped {
                        vars.remove(o);
                    }
                }
            }
        }
    }
    if steps > 20000 {
        return None;
    }
    let mut context = Context::new();
    duckscriptsdk::load(&mut context.commands).ok()?;
    context.commands.set(Box::new(c04::Probe {})).ok()?;
    match runner::run_script(&script, context, None) {
        Ok(ctx) => {
            let real: BTreeMap<String, String> = ctx.variables.iter().filter(|(k, _)| !k.starts_with('h')).map(|(k, v)| (k.clone(), v.clone())).collect();
            let vars: BTreeMap<String, String> = vars.into_iter().filter(|(k, _)| !k.starts_with('h')).collect();
            if real != vars {
                Some(json!({"script": script, "what": "trace / outputs / final variables differ from the interpreter", "model": vars, "real": real}))
            } else {
                None
            }
        }
        Err(e) => Some(json!({"script": script, "error": e.to_string(), "model": vars})),
    }
}
