//! C10: command errors are reported (output 'false', last-error message / line / source), positioned and
//! survivable, or fatal after exit_on_error; trigger_error and assert_error follow the same protocol.
//! Scripts run from real files (a main file that may include a library file) so that source and line differ.
use crate::rng::Rng;
use duckscript::runner;
use duckscript::types::error::ScriptError;
use duckscript::types::runtime::Context;
use serde_json::{json, Value};
use std::collections::BTreeMap;

// the last two are written with the documented escape, so the message text itself contains ${m0} / ${l0}
const MSGS: [&str; 11] = ["boom", "two words", "x=1", "bad: value", "e#1", "no \\${m0} here", "\\${l0}", "", " ", "7", "boom"];

fn gen_ops(r: &mut Rng, n: usize) -> Vec<Value> {
    (0..n)
        .map(|_| match r.below(14) {
            12 | 13 => json!({"k": "scriptcmd", "c": r.pick(&["array_is_empty nohandle", "map_is_empty nohandle", "set_is_empty nohandle", "map_contains_key nohandle k", "map_contains_value nohandle v",
                // (these three fail from inside an if block of their own body)
                "array_concat nohandle", "set_from_array nohandle", "array_join nohandle ,"])}),
            0 | 1 => json!({"k": "ok"}),
            2 | 3 => json!({"k": "trig", "m": r.pick(&MSGS)}),
            4 => json!({"k": "trig0"}),
            5 => json!({"k": "aerr", "m": r.pick(&MSGS)}),
            6 => json!({"k": "aerr0"}),
            7 => json!({"k": "ge"}),
            8 => json!({"k": "gl"}),
            9 => json!({"k": "gs"}),
            10 => json!({"k": "eoe", "v": r.pick(&["true", "false", "yes", "0", ""])}),
            _ => json!({"k": "libcmd"}),
        })
        .collect()
}

fn with_wraps(r: &mut Rng, ops: Vec<Value>) -> Vec<Value> {
    // an operation may sit in a taken branch, in an else branch or in the body of a function that is then called
    ops.into_iter().map(|mut o| { o["wrap"] = json!(if r.chance(2, 5) { 1 + r.below(4) } else { 0 }); o }).collect()
}

pub fn gen(r: &mut Rng) -> Value {
    let n1 = 1 + r.below(7);
    let main = gen_ops(r, n1);
    let main = with_wraps(r, main);
    let n2 = 1 + r.below(4);
    let lib = if r.chance(1, 2) { let l = gen_ops(r, n2); Value::Array(with_wraps(r, l)) } else { Value::Null };
    let inc_at = r.below(main.len() + 1);
    json!({"ops": main, "lib": lib, "inc_at": inc_at, "as_text": r.chance(1, 4), "crlf": r.chance(1, 4)})
}

fn render(prefix: &str, i: usize, op: &Value) -> String {
    let o = format!("{}{}", prefix, i);
    match op["k"].as_str().unwrap_or("") {
        "ok" => format!("{} = set fine", o),
        "trig" => format!("{} = trigger_error \"{}\"", o, op["m"].as_str().unwrap_or("")),
        "trig0" => format!("{} = trigger_error", o),
        "aerr" => format!("{} = assert_error \"{}\"", o, op["m"].as_str().unwrap_or("")),
        "aerr0" => format!("{} = assert_error", o),
        "ge" => format!("{} = get_last_error", o),
        "gl" => format!("{} = get_last_error_line", o),
        "gs" => format!("{} = get_last_error_source", o),
        "eoe" => format!("{} = exit_on_error {}", o, op["v"].as_str().unwrap_or("")),
        // a script-implemented library command whose body fails (bad handle): the error surfaces at this line
        "scriptcmd" => format!("{} = {}", o, op["c"].as_str().unwrap_or("array_is_empty nohandle")),
        // a library command that fails (array_pop of something that is no handle)
        _ => format!("{} = array_pop nohandle", o),
    }
}

/// writes the operation (with its wrapper) and returns the line number the operation itself sits on
fn push_op(lines: &mut Vec<String>, prefix: &str, i: usize, op: &Value) -> usize {
    let w = op["wrap"].as_u64().unwrap_or(0);
    match w {
        1 | 4 => lines.push("if true".to_string()),
        2 => {
            lines.push("if false".to_string());
            lines.push("else".to_string());
        }
        3 => lines.push(format!("fn {}fun{}", prefix, i)),
        _ => {}
    }
    lines.push(render(prefix, i, op));
    let at = lines.len();
    match w {
        1 | 2 => lines.push("end".to_string()),
        4 => {
            // a taken branch followed by an else branch, which must stay untouched
            lines.push("else".to_string());
            lines.push(format!("{}{}skipped = set reached", prefix, i));
            lines.push("end".to_string());
        }
        3 => {
            lines.push("end".to_string());
            lines.push(format!("{}fun{}", prefix, i));
        }
        _ => {}
    }
    at
}

fn truthy(s: &str) -> bool {
    let l = s.to_lowercase();
    !(l.is_empty() || l == "0" || l == "false" || l == "no")
}

struct Model {
    vars: BTreeMap<String, String>,
    last: Option<(Option<String>, String, String)>, // (message (None = any non-empty text), line, source)
    eoe: bool,
    unknown_msg_vars: Vec<String>,
    failed: Option<(Option<String>, usize)>,
}

fn step(m: &mut Model, prefix: &str, i: usize, op: &Value, line: usize, source: &str) {
    let o = format!("{}{}", prefix, i);
    let error = |m: &mut Model, msg: Option<String>| {
        if m.eoe {
            m.failed = Some((msg, line));
        } else {
            m.vars.insert(o.clone(), "false".to_string());
            m.last = Some((msg, line.to_string(), source.to_string()));
        }
    };
    match op["k"].as_str().unwrap_or("") {
        "ok" => {
            m.vars.insert(o, "fine".to_string());
        }
        "trig" | "aerr" => error(m, Some(op["m"].as_str().unwrap_or("").replace("\\$", "$"))),
        "trig0" => error(m, Some("Error".to_string())),
        "aerr0" => error(m, Some("Assert failed.".to_string())),
        "libcmd" | "scriptcmd" => error(m, None),
        "ge" => match &m.last {
            Some((Some(msg), _, _)) => {
                m.vars.insert(o, msg.clone());
            }
            Some((None, _, _)) => {
                m.unknown_msg_vars.push(o);
            }
            None => {
                m.vars.remove(&o);
            }
        },
        "gl" => match &m.last {
            Some((_, l, _)) => {
                m.vars.insert(o, l.clone());
            }
            None => {
                m.vars.remove(&o);
            }
        },
        "gs" => match &m.last {
            Some((_, _, s)) => {
                m.vars.insert(o, s.clone());
            }
            None => {
                m.vars.remove(&o);
            }
        },
        "eoe" => {
            let v = op["v"].as_str().unwrap_or("");
            if v.is_empty() {
                // query form
                m.vars.insert(o, m.eoe.to_string());
            } else {
                m.eoe = truthy(v);
                m.vars.insert(o, m.eoe.to_string());
            }
        }
        _ => {}
    }
}

pub fn run(input: &Value) -> Option<Value> {
    let main = input["ops"].as_array()?;
    let lib = input["lib"].as_array();
    let inc_at = (input["inc_at"].as_u64()? as usize).min(main.len());
    let as_text = input["as_text"].as_bool().unwrap_or(false) && lib.is_none();
    let dir = std::env::temp_dir().join(format!("verif_c10_{}", std::process::id()));
    std::fs::create_dir_all(&dir).ok()?;
    let dir = dir.canonicalize().ok()?;
    let main_path = dir.join("main.ds").to_string_lossy().to_string();
    let lib_path = dir.join("lib.ds").to_string_lossy().to_string();
    // ---- texts and model ----
    let mut m = Model { vars: BTreeMap::new(), last: None, eoe: false, unknown_msg_vars: vec![], failed: None };
    let mut main_lines = vec![];
    let main_src = if as_text { "".to_string() } else { main_path.clone() };
    let mut lib_lines = vec![];
    for (i, op) in main.iter().enumerate() {
        if i == inc_at {
            if let Some(l) = lib {
                main_lines.push("!include_files ./lib.ds".to_string());
                for (j, lop) in l.iter().enumerate() {
                    let at = push_op(&mut lib_lines, "l", j, lop);
                    if m.failed.is_none() {
                        step(&mut m, "l", j, lop, at, &lib_path);
                    }
                }
            }
        }
        let at = push_op(&mut main_lines, "m", i, op);
        if m.failed.is_none() {
            step(&mut m, "m", i, op, at, &main_src);
        }
    }
    if inc_at == main.len() {
        if let Some(l) = lib {
            main_lines.push("!include_files ./lib.ds".to_string());
            for (j, lop) in l.iter().enumerate() {
                let at = push_op(&mut lib_lines, "l", j, lop);
                if m.failed.is_none() {
                    step(&mut m, "l", j, lop, at, &lib_path);
                }
            }
        }
    }
    let eol = if input["crlf"].as_bool().unwrap_or(false) { "\r\n" } else { "\n" };
    let main_text = main_lines.join(eol);
    let lib_text = lib_lines.join(eol);
    std::fs::write(&main_path, &main_text).ok()?;
    if lib.is_some() {
        std::fs::write(&lib_path, &lib_text).ok()?;
    }
    // ---- real run ----
    let mut context = Context::new();
    duckscriptsdk::load(&mut context.commands).ok()?;
    let res = if as_text { runner::run_script(&main_text, context, None) } else { runner::run_script_file(&main_path, context, None) };
    let _ = std::fs::remove_dir_all(&dir);
    let shown = json!({"main.ds": main_lines, "lib.ds": lib_lines, "run_as_text": as_text});
    match (res, &m.failed) {
        (Ok(ctx), None) => {
            let mut real: BTreeMap<String, String> = ctx.variables.iter().map(|(k, v)| (k.clone(), v.clone())).collect();
            for v in &m.unknown_msg_vars {
                // message of a failing library command: any non-empty text
                match real.remove(v) {
                    Some(t) if !t.is_empty() => {}
                    other => return Some(json!({"files": shown, "what": "get_last_error after a failing library command gave no message", "var": v, "real": other})),
                }
            }
            if real != m.vars {
                return Some(json!({"files": shown, "what": "outputs / last-error queries differ from the error protocol", "model": m.vars, "real": real}));
            }
            None
        }
        (Err(ScriptError::Runtime(msg, meta)), Some((want_msg, want_line))) => {
            let line = meta.and_then(|x| x.line);
            let msg_ok = match want_msg { Some(w) => &msg == w, None => !msg.is_empty() };
            if !msg_ok || line != Some(*want_line) {
                return Some(json!({"files": shown, "what": "exit_on_error failure does not carry the message and failing line", "model": [want_msg, want_line], "real": [msg, line]}));
            }
            None
        }
        (Ok(_), Some(f)) => Some(json!({"files": shown, "what": "error after exit_on_error did not stop the script", "model_failure": [f.0, f.1]})),
        (Err(e), _) => Some(json!({"files": shown, "what": "run failed although no fatal error was expected (or wrong error kind)", "error": e.to_string(), "model_failure": format!("{:?}", m.failed.as_ref().map(|f| f.1))})),
    }
}
