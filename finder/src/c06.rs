//! C06: conditions against a recursive-descent evaluator written from the statement
//! (conjunction of disjunctions of atoms; a group is an atom; empty group falsy).
use crate::rng::Rng;
use duckscript::runner;
use duckscript::types::runtime::Context;
use serde_json::{json, Value};

fn truthy(s: &str) -> bool {
    let l = s.to_lowercase();
    !(l.is_empty() || l == "0" || l == "false" || l == "no")
}

fn gen_atom(r: &mut Rng, depth: usize, out: &mut Vec<String>) {
    if depth < 3 && r.chance(1, 4) {
        out.push("(".to_string());
        if !r.chance(1, 8) {
            gen_stmt(r, depth + 1, out);
        }
        out.push(")".to_string());
    } else {
        let pool = ["true", "false", "0", "no", "NO", "False", "yes", "1", "x", "", " ", " false", "no ", " 0 ", "\tfalse", "fa lse", "00", "off", "FALSE", "OR", "And", "AND", "Or", "oR", "aNd", "nO", "ors", "andy", "not", "(0)", "(no)", "()", "(false)", "f(x)", "(draft", "x)", "a(", ")b"];
        out.push(r.pick(&pool).to_string());
    }
}

fn gen_stmt(r: &mut Rng, depth: usize, out: &mut Vec<String>) {
    let n = 1 + r.below(4);
    for i in 0..n {
        if i > 0 {
            out.push(if r.chance(1, 2) { "and".to_string() } else { "or".to_string() });
        }
        gen_atom(r, depth, out);
    }
}

pub fn gen(r: &mut Rng) -> Value {
    if r.chance(1, 5) {
        // command form: the statement is a command; the condition holds exactly when the value it yields is truthy by
        // the SAME rule (a command that yields 1 / yes / any other text, not only true / false)
        let pool = ["true", "false", "0", "no", "NO", "False", "yes", "1", "x", "", " ", " false", "no ", " 0 ", "00", "off", "FALSE", "nO", "TRUE", "True", "2", "-1", "text", "a b"];
        return json!({ "command_value": r.pick(&pool) });
    }
    let mut t = vec![];
    gen_stmt(r, 0, &mut t);
    json!({ "tokens": t })
}

/// value(tokens) per the statement; None = not well formed
fn value(ts: &[String]) -> Option<bool> {
    if ts.is_empty() {
        return Some(false);
    }
    let mut i = 0;
    let mut conj = true;
    loop {
        // disjunction
        let mut disj = false;
        loop {
            if i >= ts.len() {
                return None;
            }
            let a;
            if ts[i] == "(" {
                let mut d = 1;
                let mut j = i + 1;
                while j < ts.len() && d > 0 {
                    if ts[j] == "(" {
                        d += 1;
                    } else if ts[j] == ")" {
                        d -= 1;
                    }
                    j += 1;
                }
                if d != 0 {
                    return None;
                }
                a = value(&ts[i + 1..j - 1])?;
                i = j;
            } else if ts[i] == ")" || ts[i] == "and" || ts[i] == "or" {
                return None;
            } else {
                a = truthy(&ts[i]);
                i += 1;
            }
            disj = disj || a;
            if i < ts.len() && ts[i] == "or" {
                i += 1;
                continue;
            }
            break;
        }
        conj = conj && disj;
        if i < ts.len() {
            if ts[i] == "and" {
                i += 1;
                continue;
            }
            return None;
        }
        return Some(conj);
    }
}

fn render(t: &str) -> String {
    if t.is_empty() || t.contains(' ') || t.contains('\t') {
        format!("\"{}\"", t.replace('\t', "\\t"))
    } else {
        t.to_string()
    }
}

fn run_command_form(v: &str) -> Option<Value> {
    let want = truthy(v);
    let mut context = Context::new();
    duckscriptsdk::load(&mut context.commands).ok()?;
    let c = format!("set \"{}\"", v);
    let script = format!("fn yield_value\n  return \"{}\"\nend\nout = not {}\nif {}\n  via_if = set true\nelse\n  via_if = set false\nend\nif false\n  via_elseif = set skipped\nelseif {}\n  via_elseif = set true\nelse\n  via_elseif = set false\nend\nvia_while = set false\nwhile {}\n  via_while = set true\n  goto :wend\nend\n:wend\nif yield_value\n  via_fn = set true\nelse\n  via_fn = set false\nend\n", v, c, c, c, c);
    match runner::run_script(&script, context, None) {
        Ok(ctx) => {
            let g = |n: &str| ctx.variables.get(n).cloned();
            let exp = Some(want.to_string());
            if g("out") != Some((!want).to_string()) || g("via_if") != exp || g("via_elseif") != exp || g("via_while") != exp || g("via_fn") != exp {
                Some(json!({"script": script, "expected_value": want, "not_output": g("out"), "if_branch": g("via_if"), "elseif_branch": g("via_elseif"), "while_entered": g("via_while"), "function_condition": g("via_fn")}))
            } else {
                None
            }
        }
        Err(e) => Some(json!({"script": script, "expected_value": want, "error": e.to_string()})),
    }
}

pub fn run(input: &Value) -> Option<Value> {
    if let Some(v) = input["command_value"].as_str() {
        return run_command_form(v);
    }
    let ts: Vec<String> = input["tokens"].as_array()?.iter().map(|v| v.as_str().unwrap().to_string()).collect();
    let want = value(&ts)?;
    let mut context = Context::new();
    duckscriptsdk::load(&mut context.commands).ok()?;
    if ts.is_empty() || context.commands.exists(&ts[0]) {
        return None; // first token names a command: command form, outside this property's grammar
    }
    let line: Vec<String> = ts.iter().map(|t| render(t)).collect();
    let c = line.join(" ");
    // all four consumers decide by the same evaluation: not, if, elseif, while
    let script = format!("out = not {}\nif {}\n  via_if = set true\nelse\n  via_if = set false\nend\nif false\n  via_elseif = set skipped\nelseif {}\n  via_elseif = set true\nelse\n  via_elseif = set false\nend\nvia_while = set false\nwhile {}\n  via_while = set true\n  goto :wend\nend\n:wend\n", c, c, c, c);
    match runner::run_script(&script, context, None) {
        Ok(ctx) => {
            let got_not = ctx.variables.get("out").cloned();
            let got_if = ctx.variables.get("via_if").cloned();
            let exp_not = Some((!want).to_string());
            let exp_if = Some(want.to_string());
            let got_elseif = ctx.variables.get("via_elseif").cloned();
            let got_while = ctx.variables.get("via_while").cloned();
            if got_not != exp_not || got_if != exp_if || got_elseif != exp_if || got_while != exp_if {
                Some(json!({"script": script, "expected_value": want, "not_output": got_not, "if_branch": got_if, "elseif_branch": got_elseif, "while_entered": got_while}))
            } else {
                None
            }
        }
        Err(e) => Some(json!({"script": script, "expected_value": want, "error": e.to_string()})),
    }
}
