//! C03 / C10 (runner side) / C13 (sequential): the runner against the abstract machine of the statement,
//! with a scripted test command whose result kind is chosen by its arguments.
use crate::rng::Rng;
use duckscript::runner;
use duckscript::types::command::{Command, CommandInvocationContext, CommandResult, GoToValue};
use duckscript::types::env::Env;
use duckscript::types::error::ScriptError;
use duckscript::types::runtime::Context;
use serde_json::{json, Value};
use std::collections::BTreeMap;
use std::sync::atomic::{AtomicBool, Ordering};
use std::sync::{Arc, Mutex};

#[derive(Clone)]
struct T {
    trace: Arc<Mutex<Vec<String>>>,
    name: String,
    aliases: Vec<String>,
}
impl Command for T {
    fn name(&self) -> String {
        self.name.clone()
    }
    fn aliases(&self) -> Vec<String> {
        self.aliases.clone()
    }
    fn clone_and_box(&self) -> Box<dyn Command> {
        Box::new(self.clone())
    }
    fn run(&self, context: CommandInvocationContext) -> CommandResult {
        let a = context.arguments.clone();
        self.trace.lock().unwrap().push(format!("{}@{}({})->{:?}", self.name, context.line, a.join("|"), context.output_variable));
        if self.name == "on_error" {
            return match a.get(0).map(|s| s.as_str()) {
                Some("CRASHME") => CommandResult::Crash("handler crashed".to_string()),
                Some("EXITME") => CommandResult::Exit(None),
                Some("EXIT0") => CommandResult::Exit(Some("0".to_string())),
                // the embedder's handler raises the halt flag while the error is being handled
                Some("HALTME") => {
                    context.env.halt.store(true, Ordering::SeqCst);
                    CommandResult::Continue(None)
                }
                // a handler may continue with a value of its own: the failing instruction's output stays 'false'
                _ => if self.aliases.contains(&"with_value".to_string()) { CommandResult::Continue(Some("handled".to_string())) } else { CommandResult::Continue(None) },
            };
        }
        let val = a.get(1).filter(|v| v.as_str() != "-").cloned();
        match a.get(0).map(|s| s.as_str()).unwrap_or("cont") {
            "cont" => CommandResult::Continue(val),
            // writes the runtime state: what commands leave in the state is what the returned context holds
            "st" => {
                context.state.insert("probe".to_string(), duckscript::types::runtime::StateValue::String(a.get(1).cloned().unwrap_or_default()));
                CommandResult::Continue(val)
            }
            "gotol" => CommandResult::GoTo(val, GoToValue::Label(a.get(2).cloned().unwrap_or_default())),
            "goton" => CommandResult::GoTo(val, GoToValue::Line(a.get(2).and_then(|x| x.parse().ok()).unwrap_or(0))),
            "exit" => CommandResult::Exit(val),
            "error" => CommandResult::Error(a.get(1).cloned().unwrap_or_default()),
            "crash" => CommandResult::Crash(a.get(1).cloned().unwrap_or_default()),
            "halt" => {
                context.env.halt.store(true, Ordering::SeqCst);
                CommandResult::Continue(val)
            }
            "halterr" => {
                context.env.halt.store(true, Ordering::SeqCst);
                CommandResult::Error(a.get(1).cloned().unwrap_or_default())
            }
            _ => CommandResult::Continue(None),
        }
    }
}

struct Broken {}
impl std::io::Write for Broken {
    fn write(&mut self, _buf: &[u8]) -> std::io::Result<usize> { Err(std::io::Error::new(std::io::ErrorKind::BrokenPipe, "consumer is gone")) }
    fn flush(&mut self) -> std::io::Result<()> { Err(std::io::Error::new(std::io::ErrorKind::BrokenPipe, "consumer is gone")) }
}

pub fn gen(r: &mut Rng) -> Value {
    if r.chance(1, 30) {
        // the library's own exit command: a value that is an integer ends the run there (failing exactly when it is not
        // zero); any other text is an error of that line and the run goes on
        let vals = ["0", "1", "3", "-1", "255", "256", "512", "-256", "65536", " 3", "3 ", " 0", "\t7", "abc", "", "+3", "3.0", "0x3", "99999999999"];
        return json!({"sdk_exit": r.pick(&vals), "then": r.pick(&["0", "7"])});
    }
    if r.chance(1, 40) {
        // C13: a script that would loop for ever, the embedder raises the flag from a second thread at some instant
        return json!({"spin": true, "delay_us": r.below(3000), "shape": r.below(8)});
    }
    let n = 2 + r.below(7);
    let labels = [":a", ":b", ":c"];
    let mut lines = vec![];
    for _ in 0..n {
        let label = if r.chance(1, 3) { json!(r.pick(&labels)) } else { Value::Null };
        let out = if r.chance(1, 2) { json!(format!("v{}", r.below(3))) } else { Value::Null };
        let kind = match r.below(20) {
            0..=4 => "cont",
            5 => "st",
            6 | 7 => "gotol",
            8 => "goton",
            9 => "exit",
            10 | 11 => "error",
            12 => "crash",
            13 => "halt",
            14 => "unknown",
            15 => "halterr",
            16 => "nocmd",
            // lines that are no script instructions (they still count as lines for labels and line numbers)
            17 => "pre",
            18 => "blank",
            _ => "comment",
        };
        let (label, out) = if kind == "pre" || kind == "blank" || kind == "comment" { (Value::Null, Value::Null) } else { (label, out) };
        let val = match r.below(11) { 0 => "-", 1 => "0", 2 => "7", 3 => "x", 4 => "${v0}", 5 => "-3", 6 => "\\${v0}", 7 => "EXITME", 8 => "EXIT0", 9 => "HALTME", _ => "CRASHME" };
        let target = if kind == "gotol" { json!(r.pick(&[":a", ":b", ":c", ":zz", "a", "zz"])) } else { json!(r.below(n + 2).to_string()) };
        // some lines spell the command with a word that is both the name of one command and (registered
        // later) an alias of another: the alias table is consulted first
        lines.push(json!({"label": label, "out": out, "kind": kind, "val": val, "target": target, "via_alias": r.chance(1, 5)}));
    }
    // (sometimes the embedder's flag is already up when the run starts)
    json!({"lines": lines, "on_error": r.below(4), "fuel": 40, "prehalt": r.chance(1, 12), "as_file": r.chance(1, 4), "env_mode": r.below(4)})
}

fn upd(vars: &mut BTreeMap<String, String>, out: &Option<String>, v: Option<String>) {
    if let Some(o) = out {
        match v {
            Some(x) => {
                vars.insert(o.clone(), x);
            }
            None => {
                vars.remove(o);
            }
        }
    }
}

fn run_spin(input: &Value) -> Option<Value> {
    let tr = Arc::new(Mutex::new(vec![]));
    let mut context = Context::new();
    context.commands.set(Box::new(T { trace: tr.clone(), name: "t".to_string(), aliases: vec![] })).ok()?;
    let shape = input["shape"].as_u64().unwrap_or(0);
    if shape >= 3 {
        // loops written with the library's own constructs: while, for-in + goto, a function as the condition, an
        // error handled over and over
        duckscriptsdk::load(&mut context.commands).ok()?;
    }
    let script = match shape {
        0 => "t goton - 0",
        1 => "x = t cont 1 -\n:again t gotol - :again",
        2 => "t cont - -\nt cont - -\nt goton v 1",
        3 => "while true\nx = set 1\nend",
        4 => "a = range 0 3\n:top for i in ${a}\nx = set ${i}\nend\ngoto :top",
        5 => "fn f\nreturn true\nend\nwhile f\ny = set 1\nend",
        6 => ":l trigger_error again\ngoto :l",
        _ => "n = set 0\nwhile true\nif true\nn = calc ${n} + 1\nelse\nn = set 0\nend\nend",
    };
    let halt = Arc::new(AtomicBool::new(false));
    let h2 = halt.clone();
    let d = input["delay_us"].as_u64().unwrap_or(100);
    let th = std::thread::spawn(move || {
        std::thread::sleep(std::time::Duration::from_micros(d));
        h2.store(true, Ordering::SeqCst);
    });
    let env = Env::new(None, None, Some(halt.clone()));
    // (a run that never returns is isolated by the driver and reported as the counterexample)
    let res = runner::run_script(script, context, Some(env));
    let _ = th.join();
    match res {
        Ok(_) => {
            if !halt.load(Ordering::SeqCst) {
                return Some(json!({"script": script, "what": "the run lowered the embedder's halt flag"}));
            }
            None
        }
        Err(e) => Some(json!({"script": script, "what": "a halted run must return successfully", "error": e.to_string()})),
    }
}

fn run_sdk_exit(input: &Value) -> Option<Value> {
    let v = input["sdk_exit"].as_str()?;
    let then = input["then"].as_str()?;
    let mut context = Context::new();
    duckscriptsdk::load(&mut context.commands).ok()?;
    let script = format!("a = set 1\nexit \"{}\"\nb = set 2\nexit {}\n", v.replace('\t', "\\t"), then);
    // (strict integer text: no white space around it)
    let code: Option<i32> = v.parse::<i32>().ok();
    let (want_ok, want_b) = match code {
        Some(c) => (c == 0, false),
        None => (then == "0", true),
    };
    let r = runner::run_script(&script, context, None);
    let (ok, b) = match &r {
        Ok(c) => (true, c.variables.contains_key("b")),
        Err(_) => (false, want_b), // (the variables of a failed run are not returned)
    };
    let line_ok = match (&r, code) {
        (Err(e), Some(_)) => e.to_string().contains("Line: 2"),
        (Err(e), None) => e.to_string().contains("Line: 4"),
        _ => true,
    };
    // a value that is an integer once the white space around it is dropped: the statement does not say whether that is
    // "an integer"; both readings are accepted (ends the run there, failing exactly when not zero / an error of the line)
    if code.is_none() {
        if let Ok(c) = v.trim().parse::<i32>() {
            let ended_there = match &r { Ok(ctx) => !ctx.variables.contains_key("b"), Err(e) => e.to_string().contains("Line: 2") };
            if ended_there && ok == (c == 0) {
                return None;
            }
        }
    }
    if ok != want_ok || b != want_b || !line_ok {
        return Some(json!({"script": script, "what": "exit with an integer ends the run at that line (failing exactly when the integer is not zero); any other text is an error of the line and the run goes on", "expected_success": want_ok, "got_success": ok, "error": r.err().map(|e| e.to_string())}));
    }
    None
}

pub fn run(input: &Value) -> Option<Value> {
    if input["sdk_exit"].is_string() {
        return run_sdk_exit(input);
    }
    if input["spin"].as_bool().unwrap_or(false) {
        return run_spin(input);
    }
    let lines = input["lines"].as_array()?;
    let on_error = input["on_error"].as_u64()?; // 0 none, 1 plain, 2 registered
    let mut text = vec![];
    for l in lines {
        let mut s = String::new();
        if let Some(lb) = l["label"].as_str() {
            s.push_str(lb);
            s.push(' ');
        }
        if let Some(o) = l["out"].as_str() {
            s.push_str(o);
            s.push_str(" = ");
        }
        match l["kind"].as_str()? {
            "nocmd" => {}
            "pre" => s.push_str("!print"),
            "blank" => {}
            "comment" => s.push_str("# a comment :a"),
            "unknown" => s.push_str("nosuchcommand a"),
            k => s.push_str(&format!("{} {} {} {}", if l["via_alias"].as_bool().unwrap_or(false) { "shadow" } else { "t" }, k, l["val"].as_str()?, l["target"].as_str()?)),
        }
        text.push(s);
    }
    let script = text.join("\n");
    // ---- abstract machine ----
    let n = lines.len();
    let mut labels: BTreeMap<String, usize> = BTreeMap::new();
    for (i, l) in lines.iter().enumerate() {
        // a label on a line without output/command still counts; the LAST line carrying a label wins
        if let Some(lb) = l["label"].as_str() {
            if !(l["out"].is_null() && l["kind"] == "nocmd") || true {
                labels.insert(lb.to_string(), i);
            }
        }
    }
    let mut vars: BTreeMap<String, String> = BTreeMap::new();
    let mut trace: Vec<String> = vec![];
    let mut line = 0usize;
    let prehalt = input["prehalt"].as_bool().unwrap_or(false);
    // the error protocol names the file a script was read from (nothing for a script given as text)
    let file_path = std::env::temp_dir().join(format!("verif_c03_{}.ds", std::process::id()));
    let src_txt = if input["as_file"].as_bool().unwrap_or(false) { file_path.to_string_lossy().to_string() } else { String::new() };
    let mut halted = prehalt;
    let mut state_probe: Option<String> = None;
    let mut outcome: Result<(), Option<usize>> = Ok(()); // Err(Some(source line)) = failure naming a line
    let mut steps = 0;
    loop {
        steps += 1;
        if steps > 200 {
            return None; // non-terminating sample
        }
        if halted || line >= n {
            break;
        }
        let l = &lines[line];
        let out = l["out"].as_str().map(|s| s.to_string());
        let kind = l["kind"].as_str()?;
        let src_line = line + 1;
        if kind == "nocmd" {
            upd(&mut vars, &out, None);
            line += 1;
            continue;
        }
        if kind == "pre" || kind == "blank" || kind == "comment" {
            line += 1;
            continue;
        }
        if kind == "unknown" {
            outcome = Err(Some(src_line));
            break;
        }
        let expand = |s: &str, vars: &BTreeMap<String, String>| -> String {
            // `\${v0}` is the documented escape: the command receives the literal text ${v0}
            if s == "${v0}" { vars.get("v0").cloned().unwrap_or_default() } else if s == "\\${v0}" { "${v0}".to_string() } else { s.to_string() }
        };
        let raw_val = l["val"].as_str()?;
        let val_arg = expand(raw_val, &vars);
        let target = l["target"].as_str()?.to_string();
        trace.push(format!("{}@{}({}|{}|{})->{:?}", if l["via_alias"].as_bool().unwrap_or(false) { "real" } else { "t" }, line, kind, val_arg, target, out));
        let val = if val_arg == "-" { None } else { Some(val_arg.clone()) };
        match kind {
            "cont" | "halt" | "st" => {
                if kind == "halt" {
                    halted = true;
                }
                if kind == "st" {
                    state_probe = Some(val_arg.clone());
                }
                upd(&mut vars, &out, val);
                line += 1;
            }
            "gotol" => {
                upd(&mut vars, &out, val);
                match labels.get(&target) {
                    Some(k) => line = *k,
                    None => {
                        outcome = Err(Some(src_line));
                        break;
                    }
                }
            }
            "goton" => {
                upd(&mut vars, &out, val);
                line = target.parse().unwrap_or(0);
            }
            "exit" => {
                upd(&mut vars, &out, val.clone());
                if let Some(v) = val {
                    if let Ok(code) = v.parse::<i32>() {
                        if code != 0 {
                            outcome = Err(Some(src_line));
                        }
                    }
                }
                break;
            }
            "error" | "halterr" => {
                // a halt raised by the failing command takes effect at the next instruction boundary:
                // the instruction in flight (including its error protocol) completes
                if kind == "halterr" {
                    halted = true;
                }
                upd(&mut vars, &out, Some("false".to_string()));
                if on_error > 0 {
                    trace.push(format!("on_error@0({}|{}|{})->None", val_arg, src_line, src_txt));
                    // a handler that crashes or answers with exit (whatever the code) ends the run at the failing line
                    if val_arg == "CRASHME" || val_arg == "EXITME" || val_arg == "EXIT0" {
                        outcome = Err(Some(src_line));
                        break;
                    }
                    // a flag raised by the handler stops the run at the next instruction boundary
                    if val_arg == "HALTME" {
                        halted = true;
                    }
                }
                line += 1;
            }
            "crash" => {
                outcome = Err(Some(src_line));
                break;
            }
            _ => return None,
        }
    }
    // ---- real run ----
    let tr = Arc::new(Mutex::new(vec![]));
    let mut context = Context::new();
    context.commands.set(Box::new(T { trace: tr.clone(), name: "t".to_string(), aliases: vec![] })).ok()?;
    context.commands.set(Box::new(T { trace: tr.clone(), name: "shadow".to_string(), aliases: vec![] })).ok()?;
    context.commands.set(Box::new(T { trace: tr.clone(), name: "real".to_string(), aliases: vec!["shadow".to_string()] })).ok()?;
    if on_error > 0 {
        // on_error == 3: the handler continues with a value ("with_value" is only a marker alias)
        context.commands.set(Box::new(T { trace: tr.clone(), name: "on_error".to_string(), aliases: if on_error == 3 { vec!["with_value".to_string()] } else { vec![] } })).ok()?;
    }
    let halt = Arc::new(AtomicBool::new(prehalt));
    // who else holds the flag: 0 = the embedder keeps its handle for the whole run, 1 = the flag is handed over (the
    // runtime holds the only handle; a command raises it through context.env.halt), 2 = no flag given (the environment creates its own)
    let env_mode = if prehalt { 0 } else { input["env_mode"].as_u64().unwrap_or(0) };
    let env = match env_mode { 0 => Some(Env::new(None, None, Some(halt.clone()))), 1 => Some(Env::new(None, None, Some(Arc::new(AtomicBool::new(false))))), 2 => Some(Env::new(Some(Box::new(std::io::sink())), Some(Box::new(std::io::sink())), None)),
        // an embedder whose output writer is broken (writes and flushes fail): a halted run still returns its context
        _ => Some(Env::new(Some(Box::new(Broken {})), Some(Box::new(Broken {})), None)) };
    let res = if input["as_file"].as_bool().unwrap_or(false) {
        // the same script given as a file: same invocations, same outcome, same failing line
        let p = file_path.clone();
        std::fs::write(&p, &script).ok()?;
        let r = runner::run_script_file(&p.to_string_lossy(), context, env);
        let _ = std::fs::remove_file(&p);
        r
    } else {
        runner::run_script(&script, context, env)
    };
    // the flag belongs to the embedder (it may be shared with other runs): the run only reads it
    if env_mode == 0 && halt.load(Ordering::SeqCst) != halted {
        return Some(json!({"script": script, "what": "the run changed the embedder's halt flag", "model": halted, "real": halt.load(Ordering::SeqCst)}));
    }
    let real_trace = tr.lock().unwrap().clone();
    let mut real_state_probe: Option<Option<String>> = None;
    let (real_vars, real_outcome): (Option<BTreeMap<String, String>>, Result<(), Option<usize>>) = match res {
        Ok(ctx) => {
            real_state_probe = Some(match ctx.state.get("probe") { Some(duckscript::types::runtime::StateValue::String(t)) => Some(t.clone()), _ => None });
            (Some(ctx.variables.iter().map(|(k, v)| (k.clone(), v.clone())).collect()), Ok(()))
        }
        Err(ref e @ ScriptError::Runtime(_, ref m)) => {
            // what is printed for the failure names the same line as the error value
            if let Some(n) = m.as_ref().and_then(|m| m.line) {
                let txt = e.to_string();
                if !txt.contains(&format!("Line: {}", n)) {
                    return Some(json!({"script": script, "what": "the text of the failure does not name the failing instruction's line", "line": n, "text": txt}));
                }
            }
            (None, Err(m.as_ref().and_then(|m| m.line)))
        }
        Err(_) => (None, Err(None)),
    };
    if real_trace != trace {
        return Some(json!({"script": script, "what": "sequence of invocations / arguments differs", "model": trace, "real": real_trace}));
    }
    if real_outcome != outcome {
        return Some(json!({"script": script, "what": "success/failure (with line) differs", "model": format!("{:?}", outcome), "real": format!("{:?}", real_outcome)}));
    }
    if let Some(rs) = real_state_probe {
        // a run that ends successfully (last line, exit, halt) returns the state as the commands left it
        if outcome.is_ok() && rs != state_probe {
            return Some(json!({"script": script, "what": "the returned context does not hold the state the commands left", "model": state_probe, "real": rs}));
        }
    }
    if let Some(rv) = real_vars {
        if rv != vars {
            return Some(json!({"script": script, "what": "final variables differ", "model": vars, "real": rv}));
        }
    }
    None
}
