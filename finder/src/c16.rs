//! C16 (substring): documented bounds in bytes; out-of-domain inputs must give the error result
//! (output variable 'false'), never a panic or a wrong value.
use crate::rng::Rng;
use duckscript::runner;
use duckscript::types::runtime::Context;
use serde_json::{json, Value};

pub fn gen(r: &mut Rng) -> Value {
    let texts = ["hello", "héllo", "a", "", "日本語", "ab cd", "x€y"];
    let nums = ["0", "1", "2", "3", "4", "5", "6", "-1", "-2", "-7", "x", "10"];
    let n = r.below(3);
    let args: Vec<String> = (0..n).map(|_| r.pick(&nums).to_string()).collect();
    json!({"text": r.pick(&texts), "nums": args})
}

fn model(text: &str, nums: &[String]) -> Option<String> {
    let len = text.len() as isize;
    let (a, b) = match nums.len() {
        0 => (0, len),
        1 => {
            let v: isize = nums[0].parse().ok()?;
            if v >= 0 {
                if v > len - 1 {
                    return None;
                }
                (v, len)
            } else {
                if len + v < 0 {
                    return None;
                }
                (0, len + v)
            }
        }
        _ => {
            let s: isize = nums[0].parse().ok()?;
            let e: isize = nums[1].parse().ok()?;
            if !(0 <= s && s <= len - 1 && s <= e && e <= len - 1) {
                return None;
            }
            (s, e)
        }
    };
    let (a, b) = (a as usize, b as usize);
    if !text.is_char_boundary(a) || !text.is_char_boundary(b) {
        return None;
    }
    Some(text[a..b].to_string())
}

pub fn run(input: &Value) -> Option<Value> {
    let text = input["text"].as_str()?;
    let nums: Vec<String> = input["nums"].as_array()?.iter().map(|v| v.as_str().unwrap().to_string()).collect();
    let want = model(text, &nums);
    let script = format!("out = substring \"{}\" {}", text, nums.join(" "));
    let mut context = Context::new();
    duckscriptsdk::load(&mut context.commands).ok()?;
    match runner::run_script(&script, context, None) {
        Ok(ctx) => {
            let got = ctx.variables.get("out").cloned();
            let expect = match &want {
                Some(s) => Some(s.clone()),
                None => Some("false".to_string()),
            };
            if got != expect {
                Some(json!({"script": script, "model": want, "real": got}))
            } else {
                None
            }
        }
        Err(e) => Some(json!({"script": script, "error": e.to_string()})),
    }
}
