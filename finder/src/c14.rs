//! C14: !include_files == pasting the files in place (recursively), relative paths resolved against the
//! including file's directory, provenance (file, line) kept for errors.
use crate::rng::Rng;
use duckscript::parser;
use duckscript::types::error::ScriptError;
use duckscript::types::instruction::InstructionType;
use serde_json::{json, Value};
use std::fs;
use std::path::PathBuf;

// file tree: main.ds includes a list of files (some in sub directories, some via ..), which may include others
pub fn gen(r: &mut Rng) -> Value {
    let paths = ["a.ds", "lib/b.ds", "lib/deep/c.ds", "d.ds"];
    let mut files = serde_json::Map::new();
    // leaf contents
    for (i, p) in paths.iter().enumerate() {
        let mut lines = vec![format!("v{} = set {}", i, i)];
        if r.chance(1, 3) {
            lines.push(format!("w{} = set x", i));
        }
        if r.chance(1, 3) {
            // a jump to a label of the same file (a file may be pasted more than once: the last copy of the label wins)
            lines.push(format!("goto :l{}", i));
            lines.push(format!("skipped{} = set yes", i));
            lines.push(format!(":l{} reached{} = set yes", i, i));
        }
        files.insert(p.to_string(), json!(lines));
    }
    // lib/b.ds may include a sibling-relative and a parent-relative file
    if r.chance(1, 2) {
        let inc = if r.chance(1, 2) { "!include_files ./deep/c.ds" } else { "!include_files ../d.ds ./deep/c.ds" };
        let mut l: Vec<Value> = files["lib/b.ds"].as_array().unwrap().clone();
        l.insert(r.below(l.len() + 1), json!(inc));
        files.insert("lib/b.ds".to_string(), json!(l));
    }
    let n = 1 + r.below(3);
    let mut listed = vec![];
    for _ in 0..n {
        listed.push(format!("./{}", r.pick(&paths)));
    }
    if r.chance(1, 4) {
        // a file one level above the directory of the main script
        files.insert("../up.ds".to_string(), json!(["vup = set up"]));
        listed.insert(r.below(listed.len() + 1), "../up.ds".to_string());
    }
    let bad = r.below(6); // 0: missing file, 1: malformed line in an included file
    // the main script may be named like one of the included files (in another directory) and may be opened through a
    // path relative to the working directory
    let main_name = ["main.ds", "b.ds", "c.ds", "main.ds"][r.below(4)];
    json!({"files": files, "main_includes": listed, "bad": bad, "split": r.chance(1, 2), "main_name": main_name, "rel": r.below(3), "indent": r.below(4), "pos": r.below(3), "abs": r.chance(1, 4)})
}

fn paste(dir: &PathBuf, rel: &str, files: &serde_json::Map<String, Value>, out: &mut Vec<(String, usize, String)>) -> Option<()> {
    // returns flattened (file, line, text) of non-directive lines, depth-first
    let key = rel.to_string();
    let lines = files.get(&key)?.as_array()?;
    let base = PathBuf::from(&key).parent().map(|p| p.to_path_buf()).unwrap_or_default();
    for (i, l) in lines.iter().enumerate() {
        let t = l.as_str()?;
        out.push((dir.join(&key).to_string_lossy().to_string(), i + 1, t.to_string()));
        if let Some(rest) = t.trim_start().strip_prefix("!include_files ") {
            for inc in rest.split(' ').filter(|x| !x.is_empty()) {
                // an absolute path names the file itself
                let dir_txt = dir.to_string_lossy().to_string();
                if let Some(relpart) = inc.strip_prefix(&format!("{}/", dir_txt)) {
                    paste(dir, relpart, files, out)?;
                    continue;
                }
                // normalise ./ and ../ against base (a `..` that climbs above the work directory is kept)
                let mut comps: Vec<String> = base.components().map(|c| c.as_os_str().to_string_lossy().to_string()).collect();
                for comp in inc.split('/') {
                    match comp {
                        "." | "" => {}
                        ".." => {
                            if comps.last().map(|c| c != "..").unwrap_or(false) {
                                comps.pop();
                            } else {
                                comps.push("..".to_string());
                            }
                        }
                        c => comps.push(c.to_string()),
                    }
                }
                paste(dir, &comps.join("/"), files, out)?;
            }
        }
    }
    Some(())
}

pub fn run(input: &Value) -> Option<Value> {
    let files = input["files"].as_object()?.clone();
    let top = std::env::temp_dir().join(format!("verif_c14_{}", std::process::id()));
    let _ = fs::remove_dir_all(&top);
    let dir = top.join("work");
    fs::create_dir_all(dir.join("lib/deep")).ok()?;
    let mut files = files;
    let includes: Vec<String> = input["main_includes"].as_array()?.iter().map(|v| v.as_str().unwrap().to_string()).collect();
    let pos = input["pos"].as_u64().unwrap_or(1);
    let includes: Vec<String> = if input["abs"].as_bool().unwrap_or(false) {
        includes.iter().map(|i| match i.strip_prefix("./") { Some(t) => format!("{}/{}", dir.to_string_lossy(), t), None => i.clone() }).collect()
    } else {
        includes
    };
    // the directive may be the first, a middle or the last line of the main script
    let mut main_lines = if pos == 0 { vec![] } else { vec![json!("m0 = set start")] };
    // a directive line may be indented like any other line
    let ind = ["", " ", "\t", "   "][input["indent"].as_u64().unwrap_or(0) as usize % 4];
    if input["split"].as_bool()? {
        for inc in &includes {
            main_lines.push(json!(format!("{}!include_files {}", ind, inc)));
        }
    } else {
        main_lines.push(json!(format!("{}!include_files {}", ind, includes.join(" "))));
    }
    if pos != 2 {
        main_lines.push(json!("m1 = set end"));
    }
    let main_name = input["main_name"].as_str().unwrap_or("main.ds").to_string();
    files.insert(main_name.clone(), json!(main_lines));
    let bad = input["bad"].as_u64()?;
    if bad == 1 {
        // malformed line in a deep file
        let mut l: Vec<Value> = files["lib/deep/c.ds"].as_array()?.clone();
        l.push(json!("x = set \"unterminated"));
        files.insert("lib/deep/c.ds".to_string(), json!(l));
    }
    for (p, lines) in files.iter() {
        if bad == 0 && p == "d.ds" {
            continue; // missing file
        }
        let text: Vec<String> = lines.as_array()?.iter().map(|x| x.as_str().unwrap().to_string()).collect();
        fs::write(dir.join(p), text.join("\n")).ok()?;
    }
    let mut flat = vec![];
    paste(&dir, &main_name, &files, &mut flat)?;
    let rel = input["rel"].as_u64().unwrap_or(0);
    let main_path = match rel {
        1 => main_name.clone(),
        2 => format!("./{}", main_name),
        _ => dir.join(&main_name).to_string_lossy().to_string(),
    };
    let old_cwd = std::env::current_dir().ok();
    if rel > 0 {
        std::env::set_current_dir(&dir).ok()?;
    }
    let res = parser::parse_file(&main_path);
    let mk = || -> Option<duckscript::types::runtime::Context> {
        let mut c = duckscript::types::runtime::Context::new();
        duckscriptsdk::load(&mut c.commands).ok()?;
        Some(c)
    };
    // a misdirected jump may loop: every run is stopped through the halt flag after a while
    let halt = |ms: u64| {
        let h = std::sync::Arc::new(std::sync::atomic::AtomicBool::new(false));
        let h2 = h.clone();
        std::thread::spawn(move || {
            std::thread::sleep(std::time::Duration::from_millis(ms));
            h2.store(true, std::sync::atomic::Ordering::SeqCst);
        });
        duckscript::types::env::Env::new(None, None, Some(h))
    };
    let file_run = if res.is_ok() { Some(duckscript::runner::run_script_file(&main_path, mk()?, Some(halt(300)))) } else { None };
    if let Some(c) = old_cwd {
        let _ = std::env::set_current_dir(c);
    }
    let _ = fs::remove_dir_all(&top);
    let dir_s = dir.to_string_lossy().to_string();
    let same_file = |a: &str, b: &str| -> bool {
        let ab = |x: &str| if x.starts_with('/') { x.to_string() } else { format!("{}/{}", dir_s, x) };
        same_file_abs(&ab(a), &ab(b))
    };
    // expected: first problem in paste order
    let mut expected_err: Option<(String, Option<usize>)> = None;
    for (i, (f, ln, t)) in flat.iter().enumerate() {
        let _ = i;
        if bad == 1 && t.contains("unterminated") {
            expected_err = Some((f.clone(), Some(*ln)));
            break;
        }
        if bad == 0 {
            if let Some(rest) = t.trim_start().strip_prefix("!include_files ") {
                if rest.split(' ').any(|x| x.ends_with("d.ds")) {
                    // the missing file is reported when the directive reaches it; lines pasted before it in the
                    // same directive are fine
                    expected_err = Some(("d.ds".to_string(), None));
                    break;
                }
            }
        }
    }
    match (res, expected_err) {
        (Err(e), Some((f, ln))) => {
            let ok = match &e {
                // the missing file is named by the path it was looked for at: relative to the including file's directory
                ScriptError::ErrorReadingFile(p, _) => ln.is_none() && same_file(p, &dir.join(&f).to_string_lossy()),
                ScriptError::MissingEndQuotes(m) => m.line == ln && m.source.as_ref().map(|s| same_file(s, &f)).unwrap_or(false),
                _ => false,
            };
            if ok { None } else { Some(json!({"what": "wrong error / provenance", "expected": [f, ln], "real": e.to_string(), "files": files})) }
        }
        (Err(e), None) => Some(json!({"what": "include failed", "error": e.to_string(), "files": files})),
        (Ok(_), Some(x)) => Some(json!({"what": "error not reported", "expected": [x.0, x.1], "files": files})),
        (Ok(instrs), None) => {
            // behaviour: running the main file == running the pasted text (same final variables)
            if let Some(b) = file_run {
                let pasted: Vec<String> = flat.iter().filter(|(_, _, t)| !t.trim_start().starts_with("!include_files")).map(|(_, _, t)| t.clone()).collect();
                let a = duckscript::runner::run_script(&pasted.join("\n"), mk()?, Some(halt(300)));
                let va = a.map(|c| c.variables.into_iter().collect::<std::collections::BTreeMap<String, String>>()).map_err(|e| e.to_string());
                let vb = b.map(|c| c.variables.into_iter().collect::<std::collections::BTreeMap<String, String>>()).map_err(|e| e.to_string());
                if va.is_ok() != vb.is_ok() || (va.is_ok() && va != vb) {
                    return Some(json!({"what": "running the file differs from running the pasted text", "pasted": format!("{:?}", va), "file": format!("{:?}", vb), "files": files}));
                }
            }
            if instrs.len() != flat.len() {
                return Some(json!({"what": "instruction count differs from the pasted script", "expected": flat.len(), "real": instrs.len(), "files": files}));
            }
            for (k, (ins, (f, ln, t))) in instrs.iter().zip(flat.iter()).enumerate() {
                let src_ok = ins.meta_info.source.as_ref().map(|s| same_file(s, f)).unwrap_or(false);
                if ins.meta_info.line != Some(*ln) || !src_ok {
                    return Some(json!({"what": "provenance differs", "index": k, "expected": [f, ln], "real": [ins.meta_info.source, ins.meta_info.line], "files": files}));
                }
                let txt_ok = match &ins.instruction_type {
                    InstructionType::Script(s) => t.trim_start().starts_with(s.label.as_deref().or(s.output.as_deref()).or(s.command.as_deref()).unwrap_or("")),
                    InstructionType::PreProcess(_) => t.trim_start().starts_with('!'),
                    InstructionType::Empty => t.trim().is_empty(),
                };
                if !txt_ok {
                    return Some(json!({"what": "instruction order differs from the pasted script", "index": k, "line": t, "files": files}));
                }
            }
            None
        }
    }
}

fn same_file_abs(a: &str, b: &str) -> bool {
    let norm = |s: &str| -> Vec<String> {
        let mut out: Vec<String> = vec![];
        for c in s.split('/') {
            match c {
                "." | "" => {}
                ".." => {
                    out.pop();
                }
                x => out.push(x.to_string()),
            }
        }
        out
    };
    norm(a) == norm(b)
}
