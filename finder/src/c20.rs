//! C20: the `duck` executable reports what the library decided (exit status 0 exactly when the library
//! run succeeds; --lint only parses and accepts exactly lower-case scripts). Runs the built binary.
use crate::rng::Rng;
use duckscript::runner;
use duckscript::types::runtime::Context;
use serde_json::{json, Value};
use std::process::Command as Proc;

pub fn gen(r: &mut Rng) -> Value {
    let scripts = [
        "out = set 1", "exit 0", "exit 1", "exit 3", "exit 255", "exit 256", "exit 512", "exit -256", "exit abc", "exit", "nosuchcommand",
        "x = set \"unterminated", "echo hi\nexit 65536", "assert false", ":L out = set 1", "Out = set 1", "out = Set 1", ":Lbl x = set 1", "if true\nend",
        // text the tool must hand to the library untouched: escapes, quotes, references, comment signs
        "out = set \"line1\\nline2\"", "out = array a\\nexit 7", "x = set a\\tb\\\\c", "x = set ${y}\nexit 2", "x = set \"# not a comment\"\nexit 0", "x = set 1 # exit 3",
        "x = set \\${y}", "  exit 4  ",
        // scripts that look at the whole variable table / handle table: the tool must start them like the library does (empty)
        "names = get_all_var_names\nn = array_length ${names}\nassert_eq ${n} 0", "names = get_all_var_names\ne = array_is_empty ${names}\nassert ${e}\nexit 9", "\nexit 5\n", "exit 6\r\n", "x = set %{y}\nassert ${x}",
    ];
    if r.chance(1, 3) {
        // lint: a few lines of every shape (label / output / command alone or combined, either case)
        let shapes = [":done", ":Done", "result =", "Result =", ":reset value =", ":Reset value =", ":reset Value =", "out = set 1", "Out = set 1", "out = Set 1",
            ":l out = set A", "set", "Set", "# Comment Only", "", "x = set \"unterminated", "!print Hi", ":l", "o = std::Set 1", "echo Hi # Trailing Comment",
            ":Übung", ":übung", "out = Écho hi", "out = écho hi", "Ärger = set 1", "ärger = set 1", "ǅ = set 1", "x = set É"];
        let n = 1 + r.below(3);
        let lines: Vec<String> = (0..n).map(|_| r.pick(&shapes).to_string()).collect();
        // some linted files pull in a file that sits next to them (clean, or with an upper-case output)
        let inc = r.below(4);
        let mut lines = lines;
        if inc == 1 || inc == 2 {
            lines.insert(r.below(lines.len() + 1), "!include_files ./inc.ds".to_string());
        }
        return json!({"script": lines.join("\n"), "mode": 3, "inc": inc, "short": r.chance(1, 2)});
    }
    if r.chance(1, 12) {
        // what the script prints and what the processes it starts print come out in program order
        return json!({"script": r.pick(&["echo a\nexec echo b\necho c", "echo 1\nexec echo 2\nexec echo 3\necho 4", "exec echo x\necho y"]), "mode": 6, "via": r.below(2)});
    }
    if r.chance(1, 12) {
        // information forms: they succeed whatever follows
        return json!({"script": "", "mode": 5, "flag": r.pick(&["--version", "--help", "-h"]), "extra": r.pick(&["", "x", "-e"])});
    }
    if r.chance(1, 6) {
        // file form followed by extra words (script arguments)
        return json!({"script": r.pick(&scripts), "mode": 4, "extra": r.pick(&["x", "other.ds", "-e", "--lint", "1 2"])});
    }
    json!({"script": r.pick(&scripts), "mode": r.below(4)})
}

fn duck() -> Option<String> {
    std::env::var("VERIF_DUCK_BIN").ok()
}

pub fn run(input: &Value) -> Option<Value> {
    let bin = duck()?;
    let script = input["script"].as_str()?;
    let mode = input["mode"].as_u64()?; // 0 file, 1 -e, 2 --eval, 3 --lint
    let dir = std::env::temp_dir().join(format!("verif_c20_{}", std::process::id()));
    std::fs::create_dir_all(&dir).ok()?;
    let file = dir.join("s.ds");
    std::fs::write(&file, script).ok()?;
    match input["inc"].as_u64() {
        Some(1) => std::fs::write(dir.join("inc.ds"), "fine = set 1\n").ok()?,
        Some(2) => std::fs::write(dir.join("inc.ds"), "fine = set 1\nNotFine = set 2\n").ok()?,
        _ => {}
    }
    let fpath = file.to_string_lossy().to_string();
    // what the library decides for this FILE (includes resolved against the file's own directory)
    let lib_parse = duckscript::parser::parse_file(&fpath);
    let out = match mode {
        0 => Proc::new(&bin).arg(&fpath).output(),
        1 => Proc::new(&bin).arg("-e").arg(script).output(),
        2 => Proc::new(&bin).arg("--eval").arg(script).output(),
        4 => Proc::new(&bin).arg(&fpath).args(input["extra"].as_str().unwrap_or("x").split(' ')).output(),
        6 => if input["via"].as_u64() == Some(1) { Proc::new(&bin).arg("-e").arg(script).output() } else { Proc::new(&bin).arg(&fpath).output() },
        5 => {
            let mut p = Proc::new(&bin);
            p.arg(input["flag"].as_str().unwrap_or("--version"));
            if let Some(x) = input["extra"].as_str() {
                if !x.is_empty() {
                    p.arg(x);
                }
            }
            p.output()
        }
        _ => Proc::new(&bin).arg(if input["short"].as_bool().unwrap_or(false) { "-l" } else { "--lint" }).arg(&fpath).output(),
    }
    .ok()?;
    let _ = std::fs::remove_dir_all(&dir);
    let stdout = String::from_utf8_lossy(&out.stdout).to_string();
    let ok_status = out.status.success();
    if mode == 6 {
        // the words echoed / printed by the started processes, in program order
        let want: Vec<String> = script.lines().map(|l| l.split(' ').last().unwrap_or("").to_string()).collect();
        let got: Vec<String> = stdout.lines().map(|l| l.trim().to_string()).filter(|l| !l.is_empty()).collect();
        if got != want || !ok_status {
            return Some(json!({"script": script, "mode": mode, "what": "output differs from program order", "model": want, "real": got}));
        }
        return None;
    }
    let expect_ok = if mode == 5 {
        true
    } else if mode == 3 {
        // accepted exactly when it parses and every label, command and output is lower-case
        match lib_parse {
            Err(_) => false,
            Ok(instrs) => instrs.iter().all(|i| match &i.instruction_type {
                duckscript::types::instruction::InstructionType::Script(s) => {
                    let lc = |o: &Option<String>| o.as_ref().map(|t| t.to_lowercase() == *t).unwrap_or(true);
                    lc(&s.label) && lc(&s.command) && lc(&s.output)
                }
                _ => true,
            }),
        }
    } else {
        let mut context = Context::new();
        duckscriptsdk::load(&mut context.commands).ok()?;
        // the library run prints too; compare only success / failure
        runner::run_script(script, context, None).is_ok()
    };
    if ok_status != expect_ok {
        return Some(json!({"script": script, "mode": mode, "what": "exit status does not match the library's decision", "library_ok": expect_ok, "exit_code": out.status.code(), "stdout": stdout}));
    }
    if !expect_ok && !stdout.contains("Error:") {
        return Some(json!({"script": script, "mode": mode, "what": "failure without an 'Error:' message", "stdout": stdout}));
    }
    None
}
