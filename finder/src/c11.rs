//! C11: variable commands and the scope stack against a plain map + stack of saved maps.
use crate::rng::Rng;
use duckscript::runner;
use duckscript::types::runtime::Context;
use serde_json::{json, Value};
use std::collections::BTreeMap;

const NAMES: [&str; 14] = ["a", "b", "c", "p::x", "p::y", "nope", "p", "px", "p_q::x", "p:", "pp::x", "p::::z", "a::x", "a::::y"];
const VALS: [&str; 6] = ["1", "two", "x y", "false", "", " "];

/// names for the *_by_name family: also names padded with a blank (" a" and "a " are variables of their own)
fn pick_name(r: &mut Rng) -> String {
    if r.chance(1, 6) { r.pick(&[" a", "a ", " p::x", "b "]).to_string() } else { r.pick(&NAMES).to_string() }
}

pub fn gen(r: &mut Rng) -> Value {
    let n = 2 + r.below(10);
    let mut ops = vec![];
    for _ in 0..n {
        let copy: Vec<String> = (0..r.below(3)).map(|_| r.pick(&NAMES).to_string()).collect();
        let op = match r.below(14) {
            13 => {
                let k = 2 + r.below(3);
                let vals: Vec<String> = (0..k).map(|_| r.pick(&["1", "two", "x y", "false", "", " ", "0", "no", "NO", "False", "or", "yes"]).to_string()).collect();
                json!({"op": "set_or", "name": r.pick(&NAMES), "vals": vals})
            }
            12 => json!({"op": "all_names", "out": r.pick(&["names", "a", "p::x"])}),
            0..=2 => json!({"op": "set", "name": r.pick(&NAMES), "value": r.pick(&VALS)}),
            3 => json!({"op": "set_by_name", "name": pick_name(r), "value": r.pick(&VALS)}),
            4 => json!({"op": "unset_by_name", "name": pick_name(r)}),
            5 => json!({"op": "get_by_name", "name": pick_name(r)}),
            6 => json!({"op": "is_defined", "name": pick_name(r)}),
            7 => {
                if r.chance(1, 2) {
                    json!({"op": "unset_all_vars", "prefix": r.pick(&["p::", "p", "p:", "a", "pp", "", " "])})
                } else {
                    json!({"op": "unset_all_vars"})
                }
            }
            8 => json!({"op": "clear_scope", "name": r.pick(&["p", "p", "pp", "a", "p::", "a::", "p:"])}),
            9 | 10 => json!({"op": "push", "copy": copy}),
            _ => json!({"op": "pop", "copy": copy}),
        };
        ops.push(op);
    }
    json!({ "ops": ops })
}

fn q(s: &str) -> String {
    format!("\"{}\"", s)
}

pub fn run(input: &Value) -> Option<Value> {
    let mut context = Context::new();
    duckscriptsdk::load(&mut context.commands).ok()?;
    let mut vars: BTreeMap<String, String> = BTreeMap::new();
    let mut stack: Vec<BTreeMap<String, String>> = vec![];
    for (i, op) in input["ops"].as_array()?.iter().enumerate() {
        let kind = op["op"].as_str()?;
        let name = op["name"].as_str().unwrap_or("");
        let copy: Vec<String> = op["copy"].as_array().map(|a| a.iter().map(|x| x.as_str().unwrap().to_string()).collect()).unwrap_or_default();
        let copy_txt = if copy.is_empty() { String::new() } else { format!(" --copy {}", copy.join(" ")) };
        let mut expect_out: Option<Option<String>> = None;
        let mut all_names_out: Option<String> = None;
        let script = match kind {
            "set" => {
                let v = op["value"].as_str()?;
                vars.insert(name.to_string(), v.to_string());
                format!("{} = set {}", name, q(v))
            }
            "set_or" => {
                // `set v1 or v2 ..`: the first truthy value, else the last one
                let vals: Vec<String> = op["vals"].as_array()?.iter().map(|x| x.as_str().unwrap_or("").to_string()).collect();
                let truthy = |s: &str| { let l = s.to_lowercase(); !(l.is_empty() || l == "0" || l == "false" || l == "no") };
                let v = vals.iter().find(|v| truthy(v)).cloned().unwrap_or_else(|| vals[vals.len() - 1].clone());
                vars.insert(name.to_string(), v);
                format!("{} = set {}", name, vals.iter().map(|v| q(v)).collect::<Vec<_>>().join(" or "))
            }
            "set_by_name" => {
                let v = op["value"].as_str()?;
                vars.insert(name.to_string(), v.to_string());
                format!("set_by_name {} {}", q(name), q(v))
            }
            "unset_by_name" => {
                vars.remove(name);
                format!("set_by_name {}", q(name))
            }
            "get_by_name" => {
                expect_out = Some(vars.get(name).cloned());
                format!("__out = get_by_name {}", q(name))
            }
            "is_defined" => {
                expect_out = Some(Some(vars.contains_key(name).to_string()));
                format!("__out = is_defined {}", q(name))
            }
            "unset_all_vars" => match op["prefix"].as_str() {
                Some(p) => {
                    vars.retain(|k, _| !k.starts_with(p));
                    format!("unset_all_vars --prefix {}", q(p))
                }
                None => {
                    vars.clear();
                    "unset_all_vars".to_string()
                }
            },
            "clear_scope" => {
                let p = format!("{}::", name);
                vars.retain(|k, _| !k.starts_with(&p));
                format!("clear_scope {}", name)
            }
            "push" => {
                stack.push(vars.clone());
                vars.retain(|k, _| copy.contains(k));
                format!("scope_push_stack{}", copy_txt)
            }
            "pop" => {
                if let Some(saved) = stack.pop() {
                    let mut nv = saved;
                    for (k, v) in vars.iter() {
                        if copy.contains(k) {
                            nv.insert(k.clone(), v.clone());
                        }
                    }
                    vars = nv;
                }
                format!("scope_pop_stack{}", copy_txt)
            }
            "all_names" => {
                // the listing is exactly the key set at the time of the call (the output variable counts when it is
                // already defined); the listing is joined with a separator no generated name contains and released
                let o = op["out"].as_str().unwrap_or("names");
                let mut keys: Vec<String> = vars.keys().cloned().collect();
                keys.sort();
                expect_out = Some(Some(keys.join("|")));
                // afterwards the output variable holds the (released) handle text: copied from the real run below
                all_names_out = Some(o.to_string());
                format!("{} = get_all_var_names\n__sorted = array_length ${{{}}}\n__out = array_join ${{{}}} |\n__r = release ${{{}}}\n__r = set_by_name __r\n__sorted = set_by_name __sorted", o, o, o, o)
            }
            _ => return None,
        };
        context = match runner::run_script(&script, context, None) {
            Ok(c) => c,
            Err(e) => return Some(json!({"step": i, "script": script, "error": e.to_string()})),
        };
        if let Some(o) = &all_names_out {
            // the listing is unordered: compare as sets
            if let Some(j) = context.variables.get("__out").cloned() {
                let mut parts: Vec<String> = if j.is_empty() { vec![] } else { j.split('|').map(|x| x.to_string()).collect() };
                parts.sort();
                context.variables.insert("__out".to_string(), parts.join("|"));
            }
            match context.variables.get(o).cloned() {
                Some(h) => {
                    vars.insert(o.clone(), h);
                }
                None => {
                    vars.remove(o);
                }
            }
        }
        if let Some(want) = expect_out {
            let got = context.variables.remove("__out");
            if got != want {
                return Some(json!({"step": i, "script": script, "what": "output differs", "model": want, "real": got}));
            }
        }
        let real: BTreeMap<String, String> = context.variables.iter().map(|(k, v)| (k.clone(), v.clone())).collect();
        if real != vars {
            return Some(json!({"step": i, "script": script, "what": "variables differ from the map/stack model", "model": vars, "real": real}));
        }
    }
    None
}
