// ===== trusted prelude (assumptions; every item here is part of the trusted base) =====
pub mod trusted {
    use vstd::prelude::*;
    // T1 string extensionality: a String is determined by its sequence of chars
    pub uninterp spec fn skey(s: Seq<char>) -> String;
    pub broadcast axiom fn skey_view(s: Seq<char>) ensures #[trigger] skey(s)@ == s;
    pub broadcast axiom fn skey_inv(s: String) ensures skey(#[trigger] s@) == s;
    // T2 bridge between vstd's &str-lookup predicates on HashMap<String,_> and String keys
    pub broadcast axiom fn str_key_contains<V>(m: Map<String, V>, s: &str)
        ensures #[trigger] vstd::std_specs::hash::contains_borrowed_key(m, s) == m.contains_key(skey(s@));
    pub broadcast axiom fn str_key_maps<V>(m: Map<String, V>, s: &str, v: V)
        ensures #[trigger] vstd::std_specs::hash::maps_borrowed_key_to_value(m, s, v) == (m.contains_key(skey(s@)) && m[skey(s@)] == v);
    pub broadcast axiom fn str_key_removed<V>(m: Map<String, V>, m2: Map<String, V>, s: &str)
        ensures #[trigger] vstd::std_specs::hash::borrowed_key_removed(m, m2, s) == (m2 == m.remove(skey(s@)));
    // T3 String hashing/equality obeys the key model of vstd's HashMap specs
    pub broadcast axiom fn string_key_model() ensures #[trigger] vstd::std_specs::hash::obeys_key_model::<String>();
    pub broadcast group strings {
        skey_view, skey_inv, str_key_contains, str_key_maps, str_key_removed, string_key_model,
    }
}
// R1: format!(..) -> vfmt(): message text is not verified
#[verifier::external_body]
pub fn vfmt() -> String { String::new() }
// R4a: X.to_string() -> X.vto_string(): std's blanket `impl<T: Display> ToString for T` cannot be
// given a per-type specification in this Verus; per-type stubs instead.
pub uninterp spec fn dec_spec(n: int) -> Seq<char>;
pub trait VToString { spec fn vts_spec(&self) -> Seq<char>; fn vto_string(&self) -> (r: String) ensures r@ == self.vts_spec(); }
impl VToString for String { open spec fn vts_spec(&self) -> Seq<char> { self@ } #[verifier::external_body] fn vto_string(&self) -> String { self.to_string() } }
impl VToString for str { open spec fn vts_spec(&self) -> Seq<char> { self@ } #[verifier::external_body] fn vto_string(&self) -> String { self.to_string() } }
impl VToString for usize { open spec fn vts_spec(&self) -> Seq<char> { dec_spec(*self as int) } #[verifier::external_body] fn vto_string(&self) -> String { self.to_string() } }
impl VToString for bool { open spec fn vts_spec(&self) -> Seq<char> { if *self { "true"@ } else { "false"@ } } #[verifier::external_body] fn vto_string(&self) -> String { self.to_string() } }
