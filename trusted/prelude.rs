// ===== trusted prelude (assumptions; every item here is part of the trusted base) =====
pub mod trusted {
    use vstd::prelude::*;
    // T1 string extensionality: a String is determined by its sequence of chars
    pub uninterp spec fn skey(s: Seq<char>) -> String;
    pub broadcast axiom fn skey_view(s: Seq<char>) ensures #[trigger] skey(s)@ == s;
    pub broadcast axiom fn skey_inv(s: String) ensures skey(#[trigger] s@) == s;
    // T2 bridge between vstd's &str-lookup predicates on HashMap<String,_> and String keys
    pub broadcast axiom fn str_key_contains<V>(m: Map<String, V>, s: &str)
        ensures #[trigger] vstd::std_specs::hash::contains_borrowed_key(m, s) == m.contains_key(skey(s@));
    pub broadcast axiom fn str_key_maps<V>(m: Map<String, V>, s: &str, v: V)
        ensures #[trigger] vstd::std_specs::hash::maps_borrowed_key_to_value(m, s, v) == (m.contains_key(skey(s@)) && m[skey(s@)] == v);
    pub broadcast axiom fn str_key_removed<V>(m: Map<String, V>, m2: Map<String, V>, s: &str)
        ensures #[trigger] vstd::std_specs::hash::borrowed_key_removed(m, m2, s) == (m2 == m.remove(skey(s@)));
    // T3 String hashing/equality obeys the key model of vstd's HashMap specs
    pub broadcast axiom fn string_key_model() ensures #[trigger] vstd::std_specs::hash::obeys_key_model::<String>();
    pub broadcast group strings {
        skey_view, skey_inv, str_key_contains, str_key_maps, str_key_removed, string_key_model,
    }
}
// R1: format!(..) -> vfmt(): message text is not verified
#[verifier::external_body]
pub fn vfmt() -> String { String::new() }
// R4a: X.to_string() -> X.vto_string(): std's blanket `impl<T: Display> ToString for T` cannot be
// given a per-type specification in this Verus; per-type stubs instead.
pub uninterp spec fn dec_spec(n: int) -> Seq<char>;
pub trait VToString { spec fn vts_spec(&self) -> Seq<char>; fn vto_string(&self) -> (r: String) ensures r@ == self.vts_spec(); }
impl VToString for String { open spec fn vts_spec(&self) -> Seq<char> { self@ } #[verifier::external_body] fn vto_string(&self) -> String { self.to_string() } }
impl VToString for str { open spec fn vts_spec(&self) -> Seq<char> { self@ } #[verifier::external_body] fn vto_string(&self) -> String { self.to_string() } }
impl VToString for usize { open spec fn vts_spec(&self) -> Seq<char> { dec_spec(*self as int) } #[verifier::external_body] fn vto_string(&self) -> String { self.to_string() } }
impl VToString for isize { open spec fn vts_spec(&self) -> Seq<char> { dec_spec(*self as int) } #[verifier::external_body] fn vto_string(&self) -> String { self.to_string() } }
impl VToString for i32 { open spec fn vts_spec(&self) -> Seq<char> { dec_spec(*self as int) } #[verifier::external_body] fn vto_string(&self) -> String { self.to_string() } }
impl VToString for u32 { open spec fn vts_spec(&self) -> Seq<char> { dec_spec(*self as int) } #[verifier::external_body] fn vto_string(&self) -> String { self.to_string() } }
impl VToString for i64 { open spec fn vts_spec(&self) -> Seq<char> { dec_spec(*self as int) } #[verifier::external_body] fn vto_string(&self) -> String { self.to_string() } }
impl VToString for u64 { open spec fn vts_spec(&self) -> Seq<char> { dec_spec(*self as int) } #[verifier::external_body] fn vto_string(&self) -> String { self.to_string() } }
impl VToString for bool { open spec fn vts_spec(&self) -> Seq<char> { if *self { "true"@ } else { "false"@ } } #[verifier::external_body] fn vto_string(&self) -> String { self.to_string() } }
// ---- std string functions (R2/R4/R5): specifications over Seq<char>, trusted to match std's documentation ----
pub uninterp spec fn is_ws(c: char) -> bool; // Unicode White_Space
pub broadcast axiom fn is_ws_ascii(c: char)
    requires (c as u32) < 128
    ensures #[trigger] is_ws(c) == (c == ' ' || c == '\t' || c == '\n' || c == '\r' || c as u32 == 11 || c as u32 == 12);

/// some character of the text is Unicode white space (str::chars().any(char::is_whitespace))
pub open spec fn has_ws(s: Seq<char>) -> bool { exists|i: int| 0 <= i < s.len() && is_ws(#[trigger] s[i]) }
#[verifier::external_body]
pub fn v_any_whitespace(s: &str) -> (r: bool) ensures r == has_ws(s@) { unimplemented!() }
pub open spec fn trim_start_spec(s: Seq<char>) -> Seq<char> decreases s.len() {
    if s.len() > 0 && is_ws(s[0]) { trim_start_spec(s.subrange(1, s.len() as int)) } else { s }
}
pub open spec fn trim_end_spec(s: Seq<char>) -> Seq<char> decreases s.len() {
    if s.len() > 0 && is_ws(s[s.len() - 1]) { trim_end_spec(s.subrange(0, s.len() - 1)) } else { s }
}
pub open spec fn trim_spec(s: Seq<char>) -> Seq<char> { trim_end_spec(trim_start_spec(s)) }
pub assume_specification [ str::trim ] (s: &str) -> (r: &str) ensures r@ == trim_spec(s@);
pub assume_specification [ str::trim_end ] (s: &str) -> (r: &str) ensures r@ == trim_end_spec(s@);
pub assume_specification [ str::trim_start ] (s: &str) -> (r: &str) ensures r@ == trim_start_spec(s@);
pub open spec fn starts_with_spec(s: Seq<char>, p: Seq<char>) -> bool { p.len() <= s.len() && s.subrange(0, p.len() as int) == p }
pub open spec fn ends_with_spec(s: Seq<char>, p: Seq<char>) -> bool { p.len() <= s.len() && s.subrange(s.len() - p.len(), s.len() as int) == p }
/// the patterns std accepts for starts_with / ends_with that occur in the code (or in small edits of it)
pub trait VPat { spec fn pat(&self) -> Seq<char>; }
impl VPat for &str { open spec fn pat(&self) -> Seq<char> { self@ } }
impl VPat for &String { open spec fn pat(&self) -> Seq<char> { self@ } }
impl VPat for char { open spec fn pat(&self) -> Seq<char> { seq![*self] } }
#[verifier::external_body]
pub fn v_starts_with<P: VPat>(s: &str, p: P) -> (r: bool) ensures r == starts_with_spec(s@, p.pat()) { unimplemented!() }
#[verifier::external_body]
pub fn v_ends_with<P: VPat>(s: &str, p: P) -> (r: bool) ensures r == ends_with_spec(s@, p.pat()) { unimplemented!() }
#[verifier::external_body]
pub fn vchars(s: &str) -> (r: Vec<char>) ensures r@ == s@ { s.chars().collect() }
pub open spec fn first_nl(s: Seq<char>, i: int) -> int decreases s.len() - i {
    if i >= s.len() || i < 0 { s.len() as int } else if s[i] == '\n' { i } else { first_nl(s, i + 1) }
}
pub open spec fn strip_cr(s: Seq<char>) -> Seq<char> { if s.len() > 0 && s[s.len() - 1] == '\r' { s.subrange(0, s.len() - 1) } else { s } }
/// str::lines(): split at '\n', a '\r' directly before the '\n' is removed, no final empty piece
pub open spec fn lines_from(s: Seq<char>, i: int) -> Seq<Seq<char>> decreases s.len() - i {
    if i >= s.len() || i < 0 { Seq::empty() } else {
        let k = first_nl(s, i);
        if k >= s.len() { seq![s.subrange(i, s.len() as int)] }
        else if k + 1 > i { seq![strip_cr(s.subrange(i, k))] + lines_from(s, k + 1) }
        else { Seq::empty() }
    }
}
pub open spec fn lines_spec(s: Seq<char>) -> Seq<Seq<char>> { lines_from(s, 0) }
#[verifier::external_body]
pub fn v_lines(s: &str) -> (r: Vec<&str>)
    ensures r@.map_values(|x: &str| x@) == lines_spec(s@), r.len() < usize::MAX
{ s.lines().collect() }
// R4b: X.parse::<i32>() -> v_parse_i32(&X)
pub uninterp spec fn parse_i32_spec(s: Seq<char>) -> Option<i32>;
#[verifier::external_body]
pub fn v_parse_i32(s: &str) -> (r: Result<i32, ()>) ensures (r is Ok) == (parse_i32_spec(s@) is Some), r is Ok ==> r->Ok_0 == parse_i32_spec(s@)->0 { s.parse::<i32>().map_err(|_| ()) }
// R3: EXPR == "lit" / EXPR != "lit" -> vstr_eq(&*EXPR, "lit") (PartialEq<str> for String has no usable spec)
#[verifier::external_body]
pub fn vstr_eq(a: &str, b: &str) -> (r: bool) ensures r == (a@ == b@) { a == b }
// R4: str::to_lowercase -> v_to_lowercase; `lower` is uninterpreted (Unicode lower-casing)
pub uninterp spec fn lower(s: Seq<char>) -> Seq<char>;
#[verifier::external_body]
pub fn v_to_lowercase(s: &str) -> (r: String) ensures r@ == lower(s@) { s.to_lowercase() }
// R4c: String::from(X) -> v_string_from(X) (impl From<&str> for String cannot be given a specification: binder mismatch)
#[verifier::external_body]
pub fn v_string_from(s: &str) -> (r: String) ensures r@ == s@ { String::from(s) }
// `let i: usize = match X.parse() {..}` -> v_parse_usize(&X) (declared per function with a subst directive)
pub uninterp spec fn parse_usize_spec(s: Seq<char>) -> Option<usize>;
#[verifier::external_body]
pub fn v_parse_usize(s: &str) -> (r: Result<usize, ()>) ensures (r is Ok) == (parse_usize_spec(s@) is Some), r is Ok ==> r->Ok_0 == parse_usize_spec(s@)->0 { s.parse::<usize>().map_err(|_| ()) }
// R11: std collection helpers without a vstd specification
pub assume_specification<T: PartialEq> [ <[T]>::contains ] (s: &[T], x: &T) -> (r: bool) ensures r == s@.contains(*x);
pub assume_specification<T: Ord> [ core::cmp::min ] (a: T, b: T) -> T;
#[verifier::external_body]
pub fn v_min_usize(a: usize, b: usize) -> (r: usize) ensures r == (if a <= b { a } else { b }) { core::cmp::min(a, b) }
// R1: println!(..) -> vprint(): output text is not verified
#[verifier::external_body]
pub fn vprint() { }
// T: lower-casing leaves the already lower-case ASCII literals "true" and "false" unchanged
#[verifier::external_body]
pub proof fn lower_ascii_literals() ensures lower("true"@) == "true"@, lower("false"@) == "false"@ { }
// T5 (environment assumption, applied only where a unit names it): argument lists and scripts have
// fewer than 2^31 elements, so i32 counters over them cannot overflow
#[verifier::external_body]
pub proof fn script_size_assumption(n: nat) ensures n < i32::MAX { }
// R4: more std string helpers used by utils/eval.rs::parse
#[verifier::external_body]
pub fn v_contains_char_str(s: &str, p: &str) -> (r: bool) ensures p@.len() == 1 ==> r == s@.contains(p@[0]) { s.contains(p) }
/// str::replace with a one-character pattern: every occurrence of c is replaced by `to`
pub open spec fn replace_char_spec(s: Seq<char>, c: char, to: Seq<char>) -> Seq<char> decreases s.len() {
    if s.len() == 0 { Seq::empty() } else { (if s[0] == c { to } else { seq![s[0]] }) + replace_char_spec(s.subrange(1, s.len() as int), c, to) }
}
#[verifier::external_body]
pub fn v_replace(s: &str, from: &str, to: &str) -> (r: String) ensures from@.len() == 1 ==> r@ == replace_char_spec(s@, from@[0], to@) { s.replace(from, to) }
pub open spec fn bool_text(b: bool) -> Seq<char> { if b { "true"@ } else { "false"@ } }
/// `v[k..].to_vec()` (std slicing panics when k > len: the precondition)
#[verifier::external_body]
pub fn v_tail_vec(v: &Vec<String>, k: usize) -> (r: Vec<String>) requires k <= v@.len() ensures r@ == v@.subrange(k as int, v@.len() as int) { v[k..].to_vec() }
// std functions small edits of the code tend to reach for (specifications as documented by std)
// integer abs: overflows (panic in debug builds, wrap-around otherwise) exactly on the minimum value
pub assume_specification [ isize::abs ] (x: isize) -> (r: isize) requires x != isize::MIN ensures r == (if x < 0 { -x } else { x as int });
pub assume_specification [ i64::abs ] (x: i64) -> (r: i64) requires x != i64::MIN ensures r == (if x < 0 { -x } else { x as int });
pub assume_specification<T, E> [ Result::<T, E>::unwrap_or ] (r: Result<T, E>, default: T) -> (res: T)
    ensures res == (match r { Ok(v) => v, Err(_) => default });
pub assume_specification<T> [ Option::<T>::or ] (o: Option<T>, b: Option<T>) -> (res: Option<T>)
    ensures res == (if o is Some { o } else { b });
