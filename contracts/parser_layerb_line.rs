// ===== parser Layer B, line level (C01): label, output variable and command tokens, and the whole instruction =====
// Index style: `line` is the trimmed line; the hypotheses say where each written part sits.

/// a name token occupies [i, j): plain characters under flags f, not starting with a quote
pub open spec fn token_at(line: Seq<char>, i: int, j: int, f: Flags) -> bool {
    0 <= i < j <= line.len() && line[i] != '"' && forall|k: int| i <= k < j ==> plain(#[trigger] line[k], f)
}
pub open spec fn spaces_at(line: Seq<char>, i: int, j: int) -> bool { 0 <= i <= j <= line.len() && forall|k: int| i <= k < j ==> line[k] == ' ' }
/// from s on there is nothing but spaces, optionally followed by a # comment
pub open spec fn only_tail(line: Seq<char>, s: int) -> bool {
    0 <= s <= line.len() && exists|c: int| s <= c <= line.len() && spaces_at(line, s, c) && (c == line.len() || #[trigger] line[c] == '#')
}
pub proof fn lemma_tail_no_value(line: Seq<char>, s: int, f: Flags)
    requires only_tail(line, s)
    ensures pnv_spec(line, s, f) matches Ok((n, None)) && (n == line.len() || (n >= line.len()))
{
    let c = choose|c: int| s <= c <= line.len() && spaces_at(line, s, c) && (c == line.len() || #[trigger] line[c] == '#');
    if c == line.len() { lemma_no_token(line, s, f); if s < line.len() { lemma_skip_spaces(line, s, line.len() as int, f); } }
    else { lemma_comment(line, s, c, f); }
}
pub proof fn lemma_tail_no_args(line: Seq<char>, s: int)
    requires only_tail(line, s)
    ensures args_spec(line, s, false) == Ok::<Seq<Seq<char>>, PErr>(Seq::empty())
{
    lemma_tail_no_value(line, s, f_arg(false));
}
pub proof fn lemma_first_non_space(line: Seq<char>, i: int, p: int)
    requires spaces_at(line, i, p), p == line.len() || line[p] != ' ',
    ensures first_non_space(line, i) == p
    decreases p - i
{
    if i < p { lemma_first_non_space(line, i + 1, p); }
}

// ---- label ----
pub proof fn lemma_label_present(line: Seq<char>, s: int, i: int, j: int)
    requires spaces_at(line, s, i), i < line.len(), line[i] == ':', token_at(line, i + 1, j, f_name()), j == line.len() || line[j] == ' ',
    ensures label_spec(line, s) == Ok::<(int, Option<Seq<char>>), PErr>((j, Some(seq![':'] + line.subrange(i + 1, j))))
    decreases i - s
{
    if s < i { lemma_label_present(line, s + 1, i, j); }
    else {
        assert(spaces_at(line, i + 1, i + 1));
        lemma_unquoted_token(line, i + 1, i + 1, j, f_name());
    }
}
pub proof fn lemma_label_absent(line: Seq<char>, s: int, i: int)
    requires spaces_at(line, s, i), i == line.len() || (line[i] != ':' && line[i] != ' '),
    ensures label_spec(line, s) == Ok::<(int, Option<Seq<char>>), PErr>((i, None))
    decreases i - s
{
    if s < i { lemma_label_absent(line, s + 1, i); }
}

// ---- output variable and command ----
/// `out = cmd`: output token [i,j), spaces, '=' at p, spaces, command token [q,k)
pub proof fn lemma_oc_both(line: Seq<char>, s: int, i: int, j: int, p: int, q: int, k: int)
    requires spaces_at(line, s, i), token_at(line, i, j, f_out()), spaces_at(line, j, p), p < line.len(), line[p] == '=',
        spaces_at(line, p + 1, q), token_at(line, q, k, f_name()), k == line.len() || line[k] == ' ',
    ensures oc_spec(line, s) == Ok::<(int, Option<Seq<char>>, Option<Seq<char>>), PErr>((k, Some(line.subrange(i, j)), Some(line.subrange(q, k))))
{
    lemma_unquoted_token(line, s, i, j, f_out());
    lemma_first_non_space(line, j, p);
    lemma_unquoted_token(line, p + 1, q, k, f_name());
}
/// `out =` and nothing (but spaces / a comment) after it
pub proof fn lemma_oc_out_only(line: Seq<char>, s: int, i: int, j: int, p: int)
    requires spaces_at(line, s, i), token_at(line, i, j, f_out()), spaces_at(line, j, p), p < line.len(), line[p] == '=', only_tail(line, p + 1),
    ensures oc_spec(line, s) == Ok::<(int, Option<Seq<char>>, Option<Seq<char>>), PErr>((p + 1, Some(line.subrange(i, j)), None))
{
    lemma_unquoted_token(line, s, i, j, f_out());
    lemma_first_non_space(line, j, p);
    lemma_tail_no_value(line, p + 1, f_name());
}
/// a command without output variable: token [i,j) and the next thing on the line is not '='
pub proof fn lemma_oc_cmd_only(line: Seq<char>, s: int, i: int, j: int, p: int)
    requires spaces_at(line, s, i), token_at(line, i, j, f_out()), j == line.len() || line[j] == ' ',
        spaces_at(line, j, p), p == line.len() || (line[p] != ' ' && line[p] != '='),
    ensures oc_spec(line, s) == Ok::<(int, Option<Seq<char>>, Option<Seq<char>>), PErr>((j, None, Some(line.subrange(i, j))))
{
    lemma_unquoted_token(line, s, i, j, f_out());
    lemma_first_non_space(line, j, p);
}
/// neither (a label alone on its line)
pub proof fn lemma_oc_none(line: Seq<char>, s: int)
    requires only_tail(line, s)
    ensures oc_spec(line, s) matches Ok((n, None, None)) && n >= line.len()
{
    lemma_tail_no_value(line, s, f_out());
    if s >= line.len() { }
}

pub open spec fn lab_end(lab: Option<(int, int)>) -> int { match lab { Some((li, lj)) => lj, None => 0 } }
// ---- the whole instruction (C01): optional label, optional output variable, a command, any argument list ----
/// `[ws] [:label ws] [out ws = ws] cmd args tail` parses to exactly that label, output variable, command and arguments.
/// lab = (colon index, end), out = (start, end, index of '='), cmd = (start, end); args / tail as in lemma_args.
pub proof fn thm_line(line: Seq<char>, lab: Option<(int, int)>, out: Option<(int, int, int)>, cs: int, ce: int, a: Seq<ArgR>, tail: Seq<char>)
    requires
        line.len() > 0,
        // label
        lab matches Some((li, lj)) ==> spaces_at(line, 0, li) && li < line.len() && line[li] == ':' && token_at(line, li + 1, lj, f_name()) && lj < line.len() && line[lj] == ' ',
        // output variable
        out matches Some((oi, oj, op)) ==> token_at(line, oi, oj, f_out()) && spaces_at(line, oj, op) && op < line.len() && line[op] == '=' && spaces_at(line, op + 1, cs)
            && token_at(line, cs, ce, f_name())
            && spaces_at(line, lab_end(lab), oi)
            && (lab is None ==> line[oi] != ':'),
        // command (read as a name after '=', or with stop-on-equals when there is no output variable)
        out is None ==> token_at(line, cs, ce, f_out()) && spaces_at(line, lab_end(lab), cs)
            && (lab is None ==> line[cs] != ':')
            // the first argument of a command without output variable must not be written starting with '='
            && (a.len() > 0 && !a[0].quoted ==> a[0].val[0] != '='),
        ce <= line.len(),
        // arguments and what follows them
        line.subrange(ce, line.len() as int) == args_text(a) + tail,
        forall|k: int| 0 <= k < a.len() ==> arg_ok(#[trigger] a[k]),
        tail_ok(tail),
    ensures
        cmdline_spec(line, 0) == Ok::<IView, PErr>(IView::Script {
            label: match lab { Some((li, lj)) => Some(seq![':'] + line.subrange(li + 1, lj)), None => None },
            output: match out { Some((oi, oj, op)) => Some(line.subrange(oi, oj)), None => None },
            command: Some(line.subrange(cs, ce)),
            arguments: opt_args(args_vals(a)),
        }),
{
    // label
    let b = match lab { Some((li, lj)) => lj, None => 0 };
    match lab {
        Some((li, lj)) => { lemma_label_present(line, 0, li, lj); }
        None => {
            let first = match out { Some((oi, oj, op)) => oi, None => cs };
            assert(spaces_at(line, 0, first));
            assert(plain(line[first], f_out()));
            lemma_label_absent(line, 0, first);
        }
    }
    let after = args_text(a) + tail;
    lemma_after_starts(a, tail);
    assert forall|k: int| 0 <= k < after.len() implies line[ce + k] == after[k] by { assert(line.subrange(ce, line.len() as int)[k] == after[k]); }
    if ce < line.len() { assert(line[ce] == after[0]); }
    match out {
        Some((oi, oj, op)) => {
            match lab { Some((li, lj)) => { lemma_oc_both(line, lj, oi, oj, op, cs, ce); } None => { lemma_oc_both(line, oi, oi, oj, op, cs, ce); } }
        }
        None => {
            // what follows the command: spaces then an argument, a comment, or the end - never '='
            let p = first_non_space(line, ce);
            lemma_fns_props(line, ce);
            lemma_next_not_equals(line, ce, a, tail);
            match lab { Some((li, lj)) => { lemma_oc_cmd_only(line, lj, cs, ce, p); } None => { lemma_oc_cmd_only(line, cs, cs, ce, p); } }
        }
    }
    lemma_args(line, ce, a, tail);
}
pub proof fn lemma_fns_props(line: Seq<char>, i: int)
    requires 0 <= i <= line.len()
    ensures ({ let p = first_non_space(line, i); i <= p <= line.len() && spaces_at(line, i, p) && (p == line.len() || line[p] != ' ') })
    decreases line.len() - i
{
    if i < line.len() && line[i] == ' ' {
        lemma_fns_props(line, i + 1);
        let p = first_non_space(line, i + 1);
        assert forall|k: int| i <= k < p implies line[k] == ' ' by { if k > i { } }
    }
}
/// after a command, the first non-space character is the start of the first argument, a '#', or the end
pub proof fn lemma_next_not_equals(line: Seq<char>, ce: int, a: Seq<ArgR>, tail: Seq<char>)
    requires 0 <= ce <= line.len(), line.subrange(ce, line.len() as int) == args_text(a) + tail,
        forall|k: int| 0 <= k < a.len() ==> arg_ok(#[trigger] a[k]), tail_ok(tail),
        a.len() > 0 && !a[0].quoted ==> a[0].val[0] != '=',
    ensures ({ let p = first_non_space(line, ce); p == line.len() || line[p] != '=' })
{
    let after = args_text(a) + tail;
    assert forall|k: int| 0 <= k < after.len() implies line[ce + k] == after[k] by { assert(line.subrange(ce, line.len() as int)[k] == after[k]); }
    lemma_fns_props(line, ce);
    let p = first_non_space(line, ce);
    if a.len() == 0 {
        assert(after =~= tail);
        let n = choose|n: nat| #![trigger spaces(n)] n <= tail.len() && tail.subrange(0, n as int) == spaces(n) && (n == tail.len() || (n >= 1 && tail[n as int] == '#'));
        assert forall|k: int| 0 <= k < n implies #[trigger] tail[k] == ' ' by { assert(tail.subrange(0, n as int)[k] == spaces(n)[k]); }
        // the first non-space character is at ce + n (a '#') or the line ends
        if n < tail.len() {
            assert(line[ce + n] == '#');
            if p < ce + n { assert(line[p] == tail[p - ce]); }
            if p > ce + n { assert(line[ce + n] == ' '); }
        } else {
            if p < line.len() { assert(line[p] == tail[p - ce]); }
        }
    } else {
        let a0 = a[0];
        let t0 = arg_text(a0);
        assert(arg_ok(a0));
        assert(after =~= t0 + (args_text(a.drop_first()) + tail));
        assert forall|k: int| 0 <= k < a0.sp implies #[trigger] after[k] == ' ' by { assert(after[k] == t0[k]); assert(t0[k] == spaces(a0.sp)[k]); }
        assert forall|k: int| ce <= k < ce + a0.sp implies line[k] == ' ' by { assert(line[ce + (k - ce)] == after[k - ce]); }
        let fc = t0[a0.sp as int];
        assert(line[ce + a0.sp] == after[a0.sp as int]);
        assert(after[a0.sp as int] == fc);
        if a0.quoted { assert(t0 =~= spaces(a0.sp) + (seq!['"'] + a0.body + seq!['"'])); assert(fc == '"'); }
        else { assert(t0 =~= spaces(a0.sp) + a0.val); assert(fc == a0.val[0]); assert(arg_char(a0.val[0])); }
        assert(fc != ' ' && fc != '=');
        if p < ce + a0.sp { assert(line[p] == ' '); }
        if p > ce + a0.sp { assert(line[ce + a0.sp] == ' '); }
    }
}

/// a label alone on its line (followed by nothing but spaces / a comment)
pub proof fn thm_line_label_only(line: Seq<char>, li: int, lj: int)
    requires line.len() > 0, spaces_at(line, 0, li), li < line.len(), line[li] == ':', token_at(line, li + 1, lj, f_name()),
        lj == line.len() || line[lj] == ' ', only_tail(line, lj),
    ensures cmdline_spec(line, 0) == Ok::<IView, PErr>(IView::Script { label: Some(seq![':'] + line.subrange(li + 1, lj)), output: None, command: None, arguments: None }),
{
    lemma_label_present(line, 0, li, lj);
    lemma_oc_none(line, lj);
    let n = oc_spec(line, lj)->Ok_0.0;
    assert(n >= line.len());
    assert(pnv_spec(line, n, f_arg(false)) == Ok::<(int, Option<Seq<char>>), PErr>((n, None)));
}
/// `[label] out =` with no command: the output variable is recorded, nothing else
pub proof fn thm_line_out_only(line: Seq<char>, lab: Option<(int, int)>, oi: int, oj: int, op: int)
    requires line.len() > 0,
        lab matches Some((li, lj)) ==> spaces_at(line, 0, li) && li < line.len() && line[li] == ':' && token_at(line, li + 1, lj, f_name()) && lj < line.len() && line[lj] == ' ',
        token_at(line, oi, oj, f_out()), spaces_at(line, oj, op), op < line.len(), line[op] == '=', only_tail(line, op + 1),
        spaces_at(line, lab_end(lab), oi), lab is None ==> line[oi] != ':',
    ensures cmdline_spec(line, 0) == Ok::<IView, PErr>(IView::Script {
        label: match lab { Some((li, lj)) => Some(seq![':'] + line.subrange(li + 1, lj)), None => None },
        output: Some(line.subrange(oi, oj)), command: None, arguments: None }),
{
    match lab {
        Some((li, lj)) => { lemma_label_present(line, 0, li, lj); lemma_oc_out_only(line, lj, oi, oj, op); }
        None => { assert(plain(line[oi], f_out())); lemma_label_absent(line, 0, oi); lemma_oc_out_only(line, oi, oi, oj, op); }
    }
    lemma_tail_no_args(line, op + 1);
}

// ---- script level (C01 / C08): n lines give n instructions, in order, the k-th tagged with line k+1 ----
/// the instructions a list of (non pre-processor) line results stands for
pub open spec fn tagged(vs: Seq<IView>, k: int, meta: InstructionMetaInfo) -> Seq<(IView, InstructionMetaInfo)>
    decreases vs.len() - k
{
    if k >= vs.len() || k < 0 { Seq::empty() } else { seq![(vs[k], line_meta(meta, k))] + tagged(vs, k + 1, meta) }
}
pub proof fn lemma_tagged_len(vs: Seq<IView>, k: int, meta: InstructionMetaInfo)
    requires 0 <= k <= vs.len()
    ensures tagged(vs, k, meta).len() == vs.len() - k,
        forall|j: int| 0 <= j < vs.len() - k ==> (#[trigger] tagged(vs, k, meta)[j]) == (vs[k + j], line_meta(meta, k + j)),
    decreases vs.len() - k
{
    if k < vs.len() {
        lemma_tagged_len(vs, k + 1, meta);
        let t = tagged(vs, k, meta);
        assert forall|j: int| 0 <= j < vs.len() - k implies (#[trigger] t[j]) == (vs[k + j], line_meta(meta, k + j)) by {
            if j > 0 { assert(t[j] == tagged(vs, k + 1, meta)[j - 1]); }
        }
    }
}
/// a script whose lines each parse (to something that is not a pre-processor directive) parses to exactly one
/// instruction per line, in order, the k-th carrying source line number k+1 and the source it was given
pub proof fn thm_script(ls: Seq<Seq<char>>, vs: Seq<IView>, k: int, meta: InstructionMetaInfo)
    requires 0 <= k <= ls.len(), vs.len() == ls.len(),
        forall|j: int| 0 <= j < ls.len() ==> line_spec(#[trigger] ls[j]) == Ok::<IView, PErr>(vs[j]) && !(vs[j] is PreProcess),
    ensures plines_spec(ls, k, meta) == Ok::<Seq<(IView, InstructionMetaInfo)>, ScriptError>(tagged(vs, k, meta)),
    decreases ls.len() - k
{
    if k < ls.len() {
        thm_script(ls, vs, k + 1, meta);
        assert(line_spec(ls[k]) == Ok::<IView, PErr>(vs[k]));
        assert(seq![(vs[k], line_meta(meta, k))] + Seq::<(IView, InstructionMetaInfo)>::empty() + tagged(vs, k + 1, meta) =~= tagged(vs, k, meta));
    }
}
/// ... and the first malformed line fails the whole parse with that line's number (C08)
pub proof fn thm_script_error(ls: Seq<Seq<char>>, vs: Seq<IView>, bad: int, e: PErr, k: int, meta: InstructionMetaInfo)
    requires 0 <= k <= bad < ls.len(), vs.len() == ls.len(),
        forall|j: int| 0 <= j < bad ==> line_spec(#[trigger] ls[j]) == Ok::<IView, PErr>(vs[j]) && !(vs[j] is PreProcess),
        line_spec(ls[bad]) == Err::<IView, PErr>(e),
    ensures plines_spec(ls, k, meta) == Err::<Seq<(IView, InstructionMetaInfo)>, ScriptError>(mk_err(e, line_meta(meta, bad))),
    decreases bad - k
{
    if k < bad { thm_script_error(ls, vs, bad, e, k + 1, meta); assert(line_spec(ls[k]) == Ok::<IView, PErr>(vs[k])); }
}

// ---- from the trimmed line to the line (C01 / C08) ----
pub proof fn thm_line_spec(text: Seq<char>, t: Seq<char>)
    requires trim_spec(text) == t
    ensures
        // blank and #-comment lines are empty instructions
        t.len() == 0 || t[0] == '#' ==> line_spec(text) == Ok::<IView, PErr>(IView::Empty),
        // every other line that does not start with '!' is read as label / output / command / arguments
        t.len() > 0 && t[0] != '#' && t[0] != '!' ==> line_spec(text) == cmdline_spec(t, 0),
        t.len() > 0 && t[0] == '!' ==> line_spec(text) == pre_spec(t, 1),
{
    reveal_strlit("#");
    assert("#"@.len() == 1 && "#"@[0] == '#');
    if t.len() > 0 {
        let h = t.subrange(0, 1);
        assert(h.len() == 1 && h[0] == t[0]);
        if t[0] == '#' { assert(h =~= "#"@); } else { assert(h[0] != "#"@[0]); }
    }
}

// ---- malformed tokens are rejected with the matching kind (C08) ----
/// a name (label, output variable, command) may not start with a double quote
pub proof fn lemma_err_quote_in_name(line: Seq<char>, s: int, i: int, f: Flags)
    requires spaces_at(line, s, i), i < line.len(), line[i] == '"', !f.allow_quotes,
    ensures pnv_spec(line, s, f) == Err::<(int, Option<Seq<char>>), PErr>(PErr::QuotesLoc)
{
    lemma_skip_spaces(line, s, i, f);
}
/// ... nor contain a backslash
pub proof fn lemma_err_backslash_in_name(line: Seq<char>, s: int, i: int, j: int, f: Flags)
    requires spaces_at(line, s, i), i <= j < line.len(), line[j] == '\\', !f.allow_control, !f.control_as_char, !f.allow_quotes || (i < j ==> line[i] != '"'),
        i < j ==> line[i] != '"', forall|k: int| i <= k < j ==> plain(#[trigger] line[k], f),
    ensures pnv_spec(line, s, f) == Err::<(int, Option<Seq<char>>), PErr>(PErr::ControlLoc)
{
    lemma_skip_spaces(line, s, i, f);
    if i < j {
        assert(plain(line[i], f));
        assert(scan(line, i, st0(), f) == scan(line, i + 1, inarg(seq![line[i]]), f));
        lemma_plain_run(line, i + 1, j, seq![line[i]], f);
    }
}
/// an escape that is not one of the documented ones
pub proof fn lemma_err_bad_escape(line: Seq<char>, s: int, i: int, j: int)
    requires spaces_at(line, s, i), i <= j, j + 1 < line.len(), line[j] == '\\',
        line[j + 1] != '\\' && line[j + 1] != '"' && line[j + 1] != 'n' && line[j + 1] != 'r' && line[j + 1] != 't' && line[j + 1] != '$',
        i < j ==> line[i] != '"', forall|k: int| i <= k < j ==> plain(#[trigger] line[k], f_arg(false)),
    ensures pnv_spec(line, s, f_arg(false)) == Err::<(int, Option<Seq<char>>), PErr>(PErr::Control)
{
    let f = f_arg(false);
    lemma_skip_spaces(line, s, i, f);
    if i < j {
        assert(plain(line[i], f));
        assert(scan(line, i, st0(), f) == scan(line, i + 1, inarg(seq![line[i]]), f));
        lemma_plain_run(line, i + 1, j, seq![line[i]], f);
        let st1 = inarg(seq![line[i]] + line.subrange(i + 1, j));
        assert(scan(line, j, st1, f) == scan(line, j + 1, St { in_control: true, fvp: false, ..st1 }, f));
    } else {
        assert(scan(line, i, st0(), f) == scan(line, i + 1, St { in_argument: true, in_control: true, ..st0() }, f));
    }
}
/// a quoted argument whose closing quote is missing
pub proof fn lemma_err_unterminated(line: Seq<char>, s: int, i: int)
    requires spaces_at(line, s, i), i < line.len(), line[i] == '"',
        forall|k: int| i < k < line.len() ==> (#[trigger] line[k]) != '"' && line[k] != '\\',
    ensures pnv_spec(line, s, f_arg(false)) == Err::<(int, Option<Seq<char>>), PErr>(PErr::EndQuotes)
{
    let f = f_arg(false);
    lemma_skip_spaces(line, s, i, f);
    assert(scan(line, i, st0(), f) == scan(line, i + 1, inq(Seq::empty()), f));
    lemma_quoted_run_to_end(line, i + 1, Seq::empty());
}
pub proof fn lemma_quoted_run_to_end(line: Seq<char>, i: int, acc: Seq<char>)
    requires 0 <= i <= line.len(), forall|k: int| i <= k < line.len() ==> (#[trigger] line[k]) != '"' && line[k] != '\\',
    ensures scan(line, i, inq(acc), f_arg(false)) == (Scan::Done { index: line.len() as int, st: inq(acc + line.subrange(i, line.len() as int)), found_end: false }),
    decreases line.len() - i
{
    if i < line.len() {
        lemma_quoted_run_to_end(line, i + 1, acc.push(line[i]));
        assert(acc.push(line[i]) + line.subrange(i + 1, line.len() as int) =~= acc + line.subrange(i, line.len() as int));
    } else {
        assert(acc + line.subrange(i, line.len() as int) =~= acc);
    }
}
/// a label that starts with a double quote or contains a backslash fails the line with that kind
pub proof fn thm_err_label(line: Seq<char>, li: int, j: int)
    requires line.len() > 0, spaces_at(line, 0, li), li < line.len(), line[li] == ':', li + 1 <= j < line.len(),
        (j == li + 1 && line[j] == '"') || (line[j] == '\\' && (li + 1 < j ==> line[li + 1] != '"') && forall|k: int| li + 1 <= k < j ==> plain(#[trigger] line[k], f_name())),
    ensures cmdline_spec(line, 0) == Err::<IView, PErr>(if j == li + 1 && line[j] == '"' { PErr::QuotesLoc } else { PErr::ControlLoc }),
{
    lemma_label_err(line, 0, li, j);
}
pub proof fn lemma_label_err(line: Seq<char>, s: int, li: int, j: int)
    requires spaces_at(line, s, li), li < line.len(), line[li] == ':', li + 1 <= j < line.len(),
        (j == li + 1 && line[j] == '"') || (line[j] == '\\' && (li + 1 < j ==> line[li + 1] != '"') && forall|k: int| li + 1 <= k < j ==> plain(#[trigger] line[k], f_name())),
    ensures label_spec(line, s) == Err::<(int, Option<Seq<char>>), PErr>(if j == li + 1 && line[j] == '"' { PErr::QuotesLoc } else { PErr::ControlLoc }),
    decreases li - s
{
    if s < li { lemma_label_err(line, s + 1, li, j); }
    else {
        assert(spaces_at(line, li + 1, li + 1));
        if j == li + 1 && line[j] == '"' { lemma_err_quote_in_name(line, li + 1, li + 1, f_name()); }
        else { lemma_err_backslash_in_name(line, li + 1, li + 1, j, f_name()); }
    }
}
