// ===== utils/eval.rs: how a command statement is re-serialised before it is parsed again (C09) =====
pub mod evspec {
use vstd::prelude::*;
use crate::replace_char_spec;
/// one argument as written into the line
pub open spec fn ser_arg(a: Seq<char>) -> Seq<char> {
    if a.len() == 0 { "\"\""@ }
    else if crate::starts_with_spec(a, "\""@) && crate::ends_with_spec(a, "\""@) { seq!['\\'] + a + seq!['\\'] }
    // any white space inside the value needs quotes to survive the second parse
    else if crate::has_ws(a) { seq!['"'] + a + seq!['"'] }
    else { a }
}
pub open spec fn ser_upto(args: Seq<Seq<char>>, n: int) -> Seq<char> decreases n {
    if n <= 0 { Seq::empty() } else { ser_upto(args, n - 1) + ser_arg(args[n - 1]) + seq![' '] }
}
/// the line handed to the parser
pub open spec fn ser_line(args: Seq<Seq<char>>) -> Seq<char> {
    replace_char_spec(replace_char_spec(replace_char_spec(ser_upto(args, args.len() as int), '\r', Seq::empty()), '\n', Seq::empty()), '\\', "\\\\"@)
}
pub proof fn lemma_rep_contains(s: Seq<char>, c: char, to: Seq<char>, x: char)
    ensures replace_char_spec(s, c, to).contains(x) <==> ((s.contains(x) && x != c) || (s.contains(c) && to.contains(x))),
    decreases s.len()
{
    let r = replace_char_spec(s, c, to);
    if s.len() == 0 {
        assert(!r.contains(x));
    } else {
        let tail = s.subrange(1, s.len() as int);
        let head = if s[0] == c { to } else { seq![s[0]] };
        lemma_rep_contains(tail, c, to, x);
        let rt = replace_char_spec(tail, c, to);
        assert(r == head + rt);
        // membership in a concatenation
        if r.contains(x) {
            let i = choose|i: int| 0 <= i < r.len() && r[i] == x;
            if i < head.len() { assert(head[i] == x); assert(head.contains(x)); } else { assert(rt[i - head.len()] == x); assert(rt.contains(x)); }
        }
        if head.contains(x) { let i = choose|i: int| 0 <= i < head.len() && head[i] == x; assert(r[i] == x); }
        if rt.contains(x) { let i = choose|i: int| 0 <= i < rt.len() && rt[i] == x; assert(r[head.len() + i] == x); }
        // membership in s vs tail
        if s.contains(x) { let i = choose|i: int| 0 <= i < s.len() && s[i] == x; if i > 0 { assert(tail[i - 1] == x); assert(tail.contains(x)); } }
        if tail.contains(x) { let i = choose|i: int| 0 <= i < tail.len() && tail[i] == x; assert(s[i + 1] == x); }
        if s.contains(c) { let i = choose|i: int| 0 <= i < s.len() && s[i] == c; if i > 0 { assert(tail[i - 1] == c); assert(tail.contains(c)); } }
        if tail.contains(c) { let i = choose|i: int| 0 <= i < tail.len() && tail[i] == c; assert(s[i + 1] == c); }
        assert(s.contains(s[0]));
        if s[0] != c { assert(seq![s[0]].contains(x) <==> x == s[0]) by { if x == s[0] { assert(seq![s[0]][0] == x); } } }
    }
}
/// the serialised line of a non-empty argument list is non-empty and has no line break
pub proof fn lemma_ser_line_one_line(args: Seq<Seq<char>>)
    requires args.len() > 0
    ensures ser_line(args).len() > 0, !ser_line(args).contains('\n'),
{
    reveal_strlit("\\\\");
    let s0 = ser_upto(args, args.len() as int);
    assert(s0[s0.len() - 1] == ' ');
    assert(s0.contains(' '));
    let e = Seq::<char>::empty();
    let t1 = replace_char_spec(s0, '\r', e);
    let t2 = replace_char_spec(t1, '\n', e);
    let bb = "\\\\"@;
    lemma_rep_contains(s0, '\r', e, ' ');
    lemma_rep_contains(t1, '\n', e, ' ');
    lemma_rep_contains(t2, '\\', bb, ' ');
    lemma_rep_contains(t1, '\n', e, '\n');
    lemma_rep_contains(t2, '\\', bb, '\n');
    assert(bb.len() == 2 && bb[0] == '\\' && bb[1] == '\\');
    assert(!bb.contains('\n'));
    assert(!e.contains('\n'));
    let t3 = ser_line(args);
    assert(t3.contains(' '));
}
} // mod evspec
