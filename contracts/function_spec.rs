// ===== functions: call stack and function table views =====
pub mod fspec {
use vstd::prelude::*;
use crate::duckscript::types::runtime::StateValue;
use crate::duckscriptsdk::sspec::*;
use crate::trusted::*;
broadcast use crate::trusted::strings;

pub open spec fn fn_key() -> String { skey(concat_spec("duckscriptsdk::command"@, "function"@)) }
pub open spec fn fn_state(state: Map<String, StateValue>) -> Map<String, StateValue> { sub_of(state, fn_key()) }
/// the function call stack, oldest first
pub open spec fn fn_stack(state: Map<String, StateValue>) -> Seq<StateValue> { list_of(fn_state(state), skey("call_stack"@)) }
/// nothing but the function call stack changed
pub open spec fn only_fn_stack_changed(s0: Map<String, StateValue>, s1: Map<String, StateValue>) -> bool {
    s1.remove(fn_key()) =~= s0.remove(fn_key()) && is_sub(s1, fn_key())
    && fn_state(s1).remove(skey("call_stack"@)) =~= fn_state(s0).remove(skey("call_stack"@)) && is_list(fn_state(s1), skey("call_stack"@))
}
pub struct CIV { pub call_line: usize, pub start_line: usize, pub end_line: usize, pub line_context_name: Seq<char>, pub output_variable: Option<Seq<char>>, pub scoped: bool }
pub open spec fn has_unum(m: Map<String, StateValue>, k: Seq<char>) -> bool { m.contains_key(skey(k)) && m[skey(k)] is UnsignedNumber }
pub open spec fn has_str(m: Map<String, StateValue>, k: Seq<char>) -> bool { m.contains_key(skey(k)) && m[skey(k)] is String }
/// a stack entry is a frame when it carries the three line numbers and the context name; the output
/// variable is optional (absent = the call has no output variable) but must be text when present
pub open spec fn call_view(v: StateValue) -> Option<CIV> {
    if v is SubState {
        let m = v->SubState_0@;
        if has_unum(m, "call_line"@) && has_unum(m, "start_line"@) && has_unum(m, "end_line"@) && has_str(m, "line_context_name"@)
            && (m.contains_key(skey("output_variable"@)) ==> m[skey("output_variable"@)] is String)
        {
            Some(CIV {
                call_line: m[skey("call_line"@)]->UnsignedNumber_0, start_line: m[skey("start_line"@)]->UnsignedNumber_0, end_line: m[skey("end_line"@)]->UnsignedNumber_0,
                line_context_name: m[skey("line_context_name"@)]->String_0@,
                output_variable: if m.contains_key(skey("output_variable"@)) { Some(m[skey("output_variable"@)]->String_0@) } else { None },
                scoped: if m.contains_key(skey("scoped"@)) && m[skey("scoped"@)] is Boolean { m[skey("scoped"@)]->Boolean_0 } else { false },
            })
        } else { None }
    } else { None }
}
/// popping skips entries that are not frames
pub open spec fn pop_spec(st: Seq<StateValue>) -> (Option<CIV>, Seq<StateValue>)
    decreases st.len()
{
    if st.len() == 0 { (None, st) }
    else { match call_view(st.last()) { Some(v) => (Some(v), st.drop_last()), None => pop_spec(st.drop_last()) } }
}
// ---- function table ----
pub struct FMV { pub start: usize, pub end: usize, pub scoped: bool }
pub open spec fn fn_entry(state: Map<String, StateValue>, name: String) -> Map<String, StateValue> {
    sub_of(sub_of(fn_state(state), skey("meta_info"@)), name)
}
/// a function is defined when its entry carries numeric start and end lines
pub open spec fn fn_table(state: Map<String, StateValue>, name: String) -> Option<FMV> {
    let e = fn_entry(state, name);
    if has_unum(e, "start"@) && has_unum(e, "end"@) {
        Some(FMV { start: e[skey("start"@)]->UnsignedNumber_0, end: e[skey("end"@)]->UnsignedNumber_0,
                   scoped: if e.contains_key(skey("scoped"@)) && e[skey("scoped"@)] is Boolean { e[skey("scoped"@)]->Boolean_0 } else { false } })
    } else { None }
}
/// the function table and call stack are untouched, and so is everything outside the function sub-state
pub open spec fn fn_views_same(s0: Map<String, StateValue>, s1: Map<String, StateValue>) -> bool {
    s1.remove(fn_key()) =~= s0.remove(fn_key())
    && fn_stack(s1) == fn_stack(s0)
    && forall|n: String| #[trigger] fn_table(s1, n) == fn_table(s0, n)
}
/// ${1}..${n} are bound to the argument values verbatim
pub open spec fn bind_args(base: Map<String, String>, args: Seq<String>, n: int) -> Map<String, String>
    decreases n
{
    if n <= 0 { base } else { bind_args(base, args, n - 1).insert(skey(crate::dec_spec(n)), args[n - 1]) }
}
pub use crate::duckscriptsdk::scspec::{ctx_key, ctx_name_of, ctx_name};
/// a change confined to top-level key k leaves every other top-level entry as it was
pub proof fn lemma_other_key(s0: Map<String, StateValue>, s1: Map<String, StateValue>, k: String, j: String)
    requires s1.remove(k) =~= s0.remove(k), j != k
    ensures s1.contains_key(j) == s0.contains_key(j), s0.contains_key(j) ==> s1[j] == s0[j], sub_of(s1, j) == sub_of(s0, j), list_of(s1, j) == list_of(s0, j)
{
    assert(s0.remove(k).contains_key(j) == s0.contains_key(j));
    assert(s1.remove(k).contains_key(j) == s1.contains_key(j));
    if s0.contains_key(j) { assert(s0.remove(k)[j] == s0[j]); assert(s1.remove(k)[j] == s1[j]); }
}
pub open spec fn table_bounded(state: Map<String, StateValue>) -> bool {
    forall|n: String| #[trigger] fn_table(state, n) is Some ==> fn_table(state, n)->0.start < usize::MAX && fn_table(state, n)->0.end < usize::MAX
}
pub open spec fn stack_bounded(state: Map<String, StateValue>) -> bool {
    forall|i: int| 0 <= i < fn_stack(state).len() && call_view(#[trigger] fn_stack(state)[i]) is Some ==> call_view(fn_stack(state)[i])->0.call_line < usize::MAX
}
pub proof fn lemma_pop_spec_bounded(st: Seq<StateValue>)
    ensures pop_spec(st).1.len() <= st.len(),
        forall|i: int| 0 <= i < pop_spec(st).1.len() ==> pop_spec(st).1[i] == st[i],
        pop_spec(st).0 is Some ==> exists|i: int| 0 <= i < st.len() && call_view(#[trigger] st[i]) == pop_spec(st).0,
    decreases st.len()
{
    if st.len() > 0 {
        match call_view(st.last()) {
            Some(v) => { assert(call_view(st[st.len() - 1]) == Some(v)); }
            None => {
                lemma_pop_spec_bounded(st.drop_last());
                assert forall|i: int| 0 <= i < pop_spec(st).1.len() implies pop_spec(st).1[i] == st[i] by {
                    assert(pop_spec(st).1 == pop_spec(st.drop_last()).1);
                    assert(st.drop_last()[i] == st[i]);
                }
                if pop_spec(st).0 is Some {
                    let i = choose|i: int| 0 <= i < st.drop_last().len() && call_view(#[trigger] st.drop_last()[i]) == pop_spec(st.drop_last()).0;
                    assert(st.drop_last()[i] == st[i]);
                }
            }
        }
    }
}
pub proof fn lemma_skey_inj(a: Seq<char>, b: Seq<char>)
    requires a != b
    ensures skey(a) != skey(b)
{ assert(skey(a)@ == a); assert(skey(b)@ == b); }
pub proof fn lemma_keys_distinct()
    ensures ctx_key() != fn_key(), crate::duckscriptsdk::scspec::stack_key() != fn_key(), crate::duckscriptsdk::scspec::stack_key() != ctx_key(),
        skey("meta_info"@) != skey("call_stack"@), skey("handles"@) != ctx_key(),
{
    reveal_strlit("duckscriptsdk::runtime"); reveal_strlit("line_context_name"); reveal_strlit("duckscriptsdk::command"); reveal_strlit("function");
    reveal_strlit("scope_stack"); reveal_strlit("::"); reveal_strlit("meta_info"); reveal_strlit("call_stack");
    assert(concat_spec("duckscriptsdk::runtime"@, "line_context_name"@).len() == 41);
    assert(concat_spec("duckscriptsdk::command"@, "function"@).len() == 32);
    assert("scope_stack"@.len() == 11);
    assert("meta_info"@.len() == 9 && "call_stack"@.len() == 10);
    lemma_skey_inj(concat_spec("duckscriptsdk::runtime"@, "line_context_name"@), concat_spec("duckscriptsdk::command"@, "function"@));
    lemma_skey_inj("scope_stack"@, concat_spec("duckscriptsdk::command"@, "function"@));
    lemma_skey_inj("scope_stack"@, concat_spec("duckscriptsdk::runtime"@, "line_context_name"@));
    lemma_skey_inj("meta_info"@, "call_stack"@);
    reveal_strlit("handles"); assert("handles"@.len() == 7);
    lemma_skey_inj("handles"@, concat_spec("duckscriptsdk::runtime"@, "line_context_name"@));
}
} // mod fspec
