// ===== state: abstract views of the string-keyed state tree =====
pub mod sspec {
use vstd::prelude::*;
use crate::duckscript::types::runtime::StateValue;
use crate::trusted::*;

pub open spec fn is_sub(state: Map<String, StateValue>, key: String) -> bool { state.contains_key(key) && state[key] is SubState }
pub open spec fn is_list(state: Map<String, StateValue>, key: String) -> bool { state.contains_key(key) && state[key] is List }
pub open spec fn sub_of(state: Map<String, StateValue>, key: String) -> Map<String, StateValue> {
    if is_sub(state, key) { state[key]->SubState_0@ } else { Map::empty() }
}
pub open spec fn list_of(state: Map<String, StateValue>, key: String) -> Seq<StateValue> {
    if is_list(state, key) { state[key]->List_0@ } else { Seq::empty() }
}
pub open spec fn concat_spec(parent: Seq<char>, current: Seq<char>) -> Seq<char> {
    if parent.len() > 0 && current.len() > 0 { parent + "::"@ + current } else { parent + current }
}
/// the handle table
pub open spec fn handles(state: Map<String, StateValue>) -> Map<String, StateValue> { sub_of(state, skey("handles"@)) }
pub open spec fn submap(a: Map<String, StateValue>, b: Map<String, StateValue>) -> bool {
    forall|k: String| #[trigger] a.contains_key(k) ==> b.contains_key(k) && a[k] == b[k]
}
/// text form of scalar state values (numbers in decimal); collections and opaque values have none
pub open spec fn as_string_spec(v: StateValue) -> Option<Seq<char>> {
    match v {
        StateValue::Boolean(b) => Some(if b { "true"@ } else { "false"@ }),
        StateValue::Number(n) => Some(crate::dec_spec(n as int)),
        StateValue::UnsignedNumber(n) => Some(crate::dec_spec(n as int)),
        StateValue::Number32Bit(n) => Some(crate::dec_spec(n as int)),
        StateValue::UnsignedNumber32Bit(n) => Some(crate::dec_spec(n as int)),
        StateValue::Number64Bit(n) => Some(crate::dec_spec(n as int)),
        StateValue::UnsignedNumber64Bit(n) => Some(crate::dec_spec(n as int)),
        StateValue::String(s) => Some(s@),
        _ => None,
    }
}
} // mod sspec
