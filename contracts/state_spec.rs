// ===== state: abstract views of the string-keyed state tree =====
pub mod sspec {
use vstd::prelude::*;
use crate::duckscript::types::runtime::StateValue;
use crate::trusted::*;

pub open spec fn is_sub(state: Map<String, StateValue>, key: String) -> bool { state.contains_key(key) && state[key] is SubState }
pub open spec fn is_list(state: Map<String, StateValue>, key: String) -> bool { state.contains_key(key) && state[key] is List }
pub open spec fn sub_of(state: Map<String, StateValue>, key: String) -> Map<String, StateValue> {
    if is_sub(state, key) { state[key]->SubState_0@ } else { Map::empty() }
}
pub open spec fn list_of(state: Map<String, StateValue>, key: String) -> Seq<StateValue> {
    if is_list(state, key) { state[key]->List_0@ } else { Seq::empty() }
}
pub open spec fn concat_spec(parent: Seq<char>, current: Seq<char>) -> Seq<char> {
    if parent.len() > 0 && current.len() > 0 { parent + "::"@ + current } else { parent + current }
}
/// the handle table
pub open spec fn handles(state: Map<String, StateValue>) -> Map<String, StateValue> { sub_of(state, skey("handles"@)) }
pub open spec fn submap(a: Map<String, StateValue>, b: Map<String, StateValue>) -> bool {
    forall|k: String| #[trigger] a.contains_key(k) ==> b.contains_key(k) && a[k] == b[k]
}
/// text form of scalar state values (numbers in decimal); collections and opaque values have none
pub open spec fn as_string_spec(v: StateValue) -> Option<Seq<char>> {
    match v {
        StateValue::Boolean(b) => Some(if b { "true"@ } else { "false"@ }),
        StateValue::Number(n) => Some(crate::dec_spec(n as int)),
        StateValue::UnsignedNumber(n) => Some(crate::dec_spec(n as int)),
        StateValue::Number32Bit(n) => Some(crate::dec_spec(n as int)),
        StateValue::UnsignedNumber32Bit(n) => Some(crate::dec_spec(n as int)),
        StateValue::Number64Bit(n) => Some(crate::dec_spec(n as int)),
        StateValue::UnsignedNumber64Bit(n) => Some(crate::dec_spec(n as int)),
        StateValue::String(s) => Some(s@),
        _ => None,
    }
}
/// the collection `val` holds the text `v` as one of its values (array item, set member, map value)
pub open spec fn refs(val: StateValue, v: String) -> bool {
    match val {
        StateValue::List(l) => l@.contains(StateValue::String(v)),
        StateValue::Set(st) => st@.contains(v),
        StateValue::SubState(m) => exists|k: String| m@.contains_key(k) && #[trigger] m@[k] == StateValue::String(v),
        _ => false,
    }
}
/// recursive release is closed: whatever a released collection holds as a value is released too
pub open spec fn closed_release(h0: Map<String, StateValue>, h1: Map<String, StateValue>) -> bool {
    forall|h: String, v: String| h0.contains_key(h) && !h1.contains_key(h) && #[trigger] refs(h0[h], v) ==> !h1.contains_key(v)
}
pub open spec fn closed_release_ex(h0: Map<String, StateValue>, h1: Map<String, StateValue>, key: String) -> bool {
    forall|h: String, v: String| h != key && h0.contains_key(h) && !h1.contains_key(h) && #[trigger] refs(h0[h], v) ==> !h1.contains_key(v)
}
/// one more recursive call (cb -> ca) keeps the closure over everything but the entry being released
pub proof fn lemma_closed_step(h0: Map<String, StateValue>, key: String, cb: Map<String, StateValue>, ca: Map<String, StateValue>)
    requires submap(cb, h0.remove(key)), submap(ca, cb), closed_release_ex(h0, cb, key), closed_release(cb, ca),
    ensures closed_release_ex(h0, ca, key), submap(ca, h0.remove(key)),
{
    assert forall|h: String, v: String| h != key && h0.contains_key(h) && !ca.contains_key(h) && #[trigger] refs(h0[h], v) implies !ca.contains_key(v) by {
        if cb.contains_key(h) {
            assert(h0.remove(key).contains_key(h) && cb[h] == h0.remove(key)[h]);
            assert(refs(cb[h], v));
        } else {
            assert(!cb.contains_key(v));
        }
    }
}

} // mod sspec
