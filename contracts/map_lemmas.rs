// ===== proved (not assumed) map lemmas, broadcast where the automation needs them =====
pub mod maplemmas {
use vstd::prelude::*;
/// a change confined to key k leaves every other entry as it was
pub broadcast proof fn lemma_remove_pointwise<V>(a: Map<String, V>, b: Map<String, V>, k: String, j: String)
    requires a.remove(k) == b.remove(k), j != k
    ensures #![trigger a.remove(k), b.remove(k), a.contains_key(j)]
        a.contains_key(j) == b.contains_key(j), a.contains_key(j) ==> a[j] == b[j]
{
    assert(a.remove(k).contains_key(j) == a.contains_key(j));
    assert(b.remove(k).contains_key(j) == b.contains_key(j));
    if a.contains_key(j) { assert(a.remove(k)[j] == a[j]); assert(b.remove(k)[j] == b[j]); }
}
}
