// ===== scope: a map and a stack of saved maps (C11 statement) =====
pub mod scspec {
use vstd::prelude::*;
use crate::duckscript::types::runtime::StateValue;
use crate::duckscriptsdk::sspec::*;
use crate::trusted::*;
use crate::any_vars;

pub open spec fn stack_key() -> String { skey("scope_stack"@) }
// ---- the line-context name (types/scope.rs): kept under runtime sub-state "line_context_name", entry "name" ----
pub open spec fn ctx_key() -> String { skey(concat_spec("duckscriptsdk::runtime"@, "line_context_name"@)) }
/// the current line-context name: the text stored under "name", the empty text when nothing (or something else) is stored
pub open spec fn ctx_name_of(ctx_state: Map<String, StateValue>) -> Seq<char> {
    if ctx_state.contains_key(skey("name"@)) && ctx_state[skey("name"@)] is String { ctx_state[skey("name"@)]->String_0@ } else { ""@ }
}
pub open spec fn ctx_name(state: Map<String, StateValue>) -> Seq<char> { ctx_name_of(sub_of(state, ctx_key())) }
pub open spec fn frame_of(v: StateValue) -> Option<Map<String, String>> { if v is Any { any_vars(v->Any_0) } else { None } }
/// the saved maps, oldest first
pub open spec fn frames(state: Map<String, StateValue>) -> Seq<Option<Map<String, String>>> {
    list_of(state, stack_key()).map_values(|v: StateValue| frame_of(v))
}
/// the copied names that are defined
pub open spec fn copied(vars: Map<String, String>, copy: Seq<String>) -> Map<String, String> {
    vars.filter_keys(|k: String| copy.contains(k))
}
pub open spec fn in_prefix(s: Seq<String>, n: int, k: String) -> bool { exists|j: int| 0 <= j < n && #[trigger] s[j] == k }
/// pop: the saved map overlaid with the copied names that are defined
pub open spec fn overlay(saved: Map<String, String>, top: Map<String, String>) -> Map<String, String> { saved.union_prefer_right(top) }
/// effect of the pop handler on (stack list, variables): empty stack => error, nothing changes;
/// otherwise the top frame is removed and, when it holds a saved map, the variables become that map
/// overlaid with the copied names that are defined
pub open spec fn pop_effect(l0: Seq<StateValue>, v0: Map<String, String>, copy: Seq<String>,
    r: Result<Option<String>, String>, l1: Seq<StateValue>, v1: Map<String, String>) -> bool
{
    if l0.len() == 0 { r is Err && l1 == l0 && v1 == v0 }
    else {
        l1 == l0.drop_last()
        && match frame_of(l0.last()) {
            Some(saved) => r == Ok::<Option<String>, String>(None) && v1 == overlay(saved, copied(v0, copy)),
            None => r is Err && v1 == v0,
        }
    }
}
/// `--copy a b c` as first arguments names the variables to carry over
pub open spec fn copy_list(args: Seq<String>) -> Seq<String> {
    if args.len() > 0 && args[0]@ == "--copy"@ { args.subrange(1, args.len() as int) } else { Seq::empty() }
}
/// exactly the variables whose name does not start with the prefix remain
pub open spec fn without_prefix(vars: Map<String, String>, prefix: Seq<char>) -> Map<String, String> {
    vars.filter_keys(|k: String| !crate::starts_with_spec(k@, prefix))
}
} // mod scspec
