// ===== structured blocks: reference scan for the end of a block (Layer A mirror of find_commands) =====
pub mod bspec {
use vstd::prelude::*;
use crate::duckscript::types::instruction::*;
use crate::trusted::*;

pub struct Names { pub start: Seq<String>, pub middle: Seq<String>, pub end: Seq<String>, pub start_blocks: Seq<String>, pub end_blocks: Seq<String>, pub recursive: bool }
pub open spec fn command_at(instrs: Seq<Instruction>, line: int) -> Option<String> {
    match instrs[line].instruction_type { InstructionType::Script(s) => s.command, _ => None }
}
/// result: Ok(Some((middle lines, end line))) | Ok(None) (never produced) | Err
pub open spec fn fc(instrs: Seq<Instruction>, n: Names, line: int, end_index: int, skip_to: int, delta: int, middle: Seq<usize>)
    -> Result<(Seq<usize>, int), ()>
    decreases end_index - line
{
    if line >= end_index || line < 0 || end_index > instrs.len() { Err(()) }
    else if line < skip_to { fc(instrs, n, line + 1, end_index, skip_to, delta, middle) }
    else {
        match command_at(instrs, line) {
            None => fc(instrs, n, line + 1, end_index, skip_to, delta, middle),
            Some(c) =>
                if n.start_blocks.contains(c) { fc(instrs, n, line + 1, end_index, skip_to, delta + 1, middle) }
                else if n.middle.contains(c) { fc(instrs, n, line + 1, end_index, skip_to, delta, middle.push(line as usize)) }
                else if n.end_blocks.contains(c) && delta > 0 { fc(instrs, n, line + 1, end_index, skip_to, delta - 1, middle) }
                else if n.end.contains(c) { Ok((middle, line)) }
                else if n.start.contains(c) {
                    if n.recursive {
                        match fc(instrs, n, line + 1, end_index, line + 1, 0, Seq::empty()) {
                            Ok((_, e)) => fc(instrs, n, line + 1, end_index, e + 1, delta, middle),
                            Err(_) => Err(()),
                        }
                    } else { Err(()) }
                }
                else { fc(instrs, n, line + 1, end_index, skip_to, delta, middle) },
        }
    }
}
/// all spellings of a command: every alias and the full name
pub open spec fn spellings<C: crate::duckscript::types::command::Command>(c: C) -> Seq<String> { c.spec_aliases().push(c.spec_name()) }
pub open spec fn same_members(a: Seq<String>, b: Seq<String>) -> bool { forall|s: String| #[trigger] a.contains(s) <==> b.contains(s) }
} // mod bspec
