// ===== structured blocks: reference scan for the end of a block (Layer A mirror of find_commands) =====
pub mod bspec {
use vstd::prelude::*;
use crate::duckscript::types::instruction::*;
use crate::trusted::*;

pub struct Names { pub start: Seq<String>, pub middle: Seq<String>, pub end: Seq<String>, pub start_blocks: Seq<String>, pub end_blocks: Seq<String>, pub recursive: bool }
pub open spec fn command_at(instrs: Seq<Instruction>, line: int) -> Option<String> {
    match instrs[line].instruction_type { InstructionType::Script(s) => s.command, _ => None }
}
/// result: Ok(Some((middle lines, end line))) | Ok(None) (never produced) | Err
pub open spec fn fc(instrs: Seq<Instruction>, n: Names, line: int, end_index: int, skip_to: int, delta: int, middle: Seq<usize>)
    -> Result<(Seq<usize>, int), ()>
    decreases end_index - line
{
    if line >= end_index || line < 0 || end_index > instrs.len() { Err(()) }
    else if line < skip_to { fc(instrs, n, line + 1, end_index, skip_to, delta, middle) }
    else {
        match command_at(instrs, line) {
            None => fc(instrs, n, line + 1, end_index, skip_to, delta, middle),
            Some(c) =>
                if n.start_blocks.contains(c) { fc(instrs, n, line + 1, end_index, skip_to, delta + 1, middle) }
                else if n.middle.contains(c) { fc(instrs, n, line + 1, end_index, skip_to, delta, middle.push(line as usize)) }
                else if n.end_blocks.contains(c) && delta > 0 { fc(instrs, n, line + 1, end_index, skip_to, delta - 1, middle) }
                else if n.end.contains(c) { Ok((middle, line)) }
                else if n.start.contains(c) {
                    if n.recursive {
                        match fc(instrs, n, line + 1, end_index, line + 1, 0, Seq::empty()) {
                            Ok((_, e)) => fc(instrs, n, line + 1, end_index, e + 1, delta, middle),
                            Err(_) => Err(()),
                        }
                    } else { Err(()) }
                }
                else { fc(instrs, n, line + 1, end_index, skip_to, delta, middle) },
        }
    }
}
/// all spellings of a command: every alias and the full name
pub open spec fn spellings<C: crate::duckscript::types::command::Command>(c: C) -> Seq<String> { c.spec_aliases().push(c.spec_name()) }
pub open spec fn same_members(a: Seq<String>, b: Seq<String>) -> bool { forall|s: String| #[trigger] a.contains(s) <==> b.contains(s) }
pub open spec fn names_equiv(a: Names, b: Names) -> bool {
    same_members(a.start, b.start) && same_members(a.middle, b.middle) && same_members(a.end, b.end)
    && same_members(a.start_blocks, b.start_blocks) && same_members(a.end_blocks, b.end_blocks) && a.recursive == b.recursive
}
/// the scan only asks whether a command name is in a list, so lists with the same members give the same answer
pub proof fn lemma_fc_members(instrs: Seq<Instruction>, a: Names, b: Names, line: int, end_index: int, skip_to: int, delta: int, middle: Seq<usize>)
    requires names_equiv(a, b)
    ensures fc(instrs, a, line, end_index, skip_to, delta, middle) == fc(instrs, b, line, end_index, skip_to, delta, middle)
    decreases end_index - line
{
    if line >= end_index || line < 0 || end_index > instrs.len() { }
    else if line < skip_to { lemma_fc_members(instrs, a, b, line + 1, end_index, skip_to, delta, middle); }
    else {
        match command_at(instrs, line) {
            None => { lemma_fc_members(instrs, a, b, line + 1, end_index, skip_to, delta, middle); }
            Some(c) => {
                if a.start_blocks.contains(c) { lemma_fc_members(instrs, a, b, line + 1, end_index, skip_to, delta + 1, middle); }
                else if a.middle.contains(c) { lemma_fc_members(instrs, a, b, line + 1, end_index, skip_to, delta, middle.push(line as usize)); }
                else if a.end_blocks.contains(c) && delta > 0 { lemma_fc_members(instrs, a, b, line + 1, end_index, skip_to, delta - 1, middle); }
                else if a.end.contains(c) { }
                else if a.start.contains(c) {
                    if a.recursive {
                        lemma_fc_members(instrs, a, b, line + 1, end_index, line + 1, 0, Seq::empty());
                        match fc(instrs, a, line + 1, end_index, line + 1, 0, Seq::empty()) {
                            Ok((_, e)) => { lemma_fc_members(instrs, a, b, line + 1, end_index, e + 1, delta, middle); }
                            Err(_) => {}
                        }
                    }
                }
                else { lemma_fc_members(instrs, a, b, line + 1, end_index, skip_to, delta, middle); }
            }
        }
    }
}
} // mod bspec
