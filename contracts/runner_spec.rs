// ===== runner: abstract machine pieces written from the C03 statement =====
pub mod rspec {
use vstd::prelude::*;
use crate::duckscript::types::instruction::*;
use crate::duckscript::types::command::*;
use crate::duckscript::types::error::ScriptError;
use crate::duckscript::types::env::Env;
use crate::duckscript::types::runtime::StateValue;
use crate::trusted::*;
broadcast use crate::trusted::strings;

/// continue/goto/exit store the value in the output variable or, with no value, delete it
pub open spec fn upd(vars: Map<String, String>, out: Option<String>, v: Option<String>) -> Map<String, String> {
    match out { None => vars, Some(o) => match v { Some(x) => vars.insert(o, x), None => vars.remove(o) } }
}
pub open spec fn label_of(i: Instruction) -> Option<String> {
    match i.instruction_type { InstructionType::Script(s) => s.label, _ => None }
}
pub open spec fn labels_upto(instrs: Seq<Instruction>, n: int) -> Map<String, usize>
    decreases n
{
    if n <= 0 { Map::empty() } else {
        let m = labels_upto(instrs, n - 1);
        match label_of(instrs[n - 1]) { Some(l) => m.insert(l, (n - 1) as usize), None => m }
    }
}
/// argument binding, decided in unit expansion (C02): the received arguments are THE strings whose texts are what the
/// written arguments contribute (bind_views: one contribution per written argument, a spread reference several)
pub open spec fn bind_spec(vars: Map<String, String>, args: Option<Seq<String>>, meta: InstructionMetaInfo) -> Seq<String> {
    choose|a: Seq<String>| crate::duckscript::pspec::vstrs(a) == crate::duckscript::xspec::bind_views(vars, match args { Some(x) => Some(crate::duckscript::pspec::vstrs(x)), None => None })
}
/// strings with the same texts are the same strings
pub proof fn lemma_bind_unique(a: Seq<String>, vars: Map<String, String>, args: Option<Seq<String>>, meta: InstructionMetaInfo)
    requires crate::duckscript::pspec::vstrs(a) == crate::duckscript::xspec::bind_views(vars, match args { Some(x) => Some(crate::duckscript::pspec::vstrs(x)), None => None })
    ensures a == bind_spec(vars, args, meta)
{
    let b = bind_spec(vars, args, meta);
    assert(crate::duckscript::pspec::vstrs(b) == crate::duckscript::pspec::vstrs(a));
    assert(a.len() == b.len()) by { assert(crate::duckscript::pspec::vstrs(a).len() == a.len()); assert(crate::duckscript::pspec::vstrs(b).len() == b.len()); }
    assert forall|i: int| 0 <= i < a.len() implies a[i] == b[i] by {
        assert(crate::duckscript::pspec::vstrs(a)[i] == a[i]@); assert(crate::duckscript::pspec::vstrs(b)[i] == b[i]@);
        assert(skey(a[i]@) == a[i]); assert(skey(b[i]@) == b[i]);
    }
    assert(a =~= b);
}
pub open spec fn oseq(o: Option<Vec<String>>) -> Option<Seq<String>> { match o { Some(v) => Some(v@), None => None } }

/// one instruction dispatch, from the statement: empty / pre-process / command-less lines are no-ops,
/// an unknown command is a crash, otherwise exactly one invocation of the looked-up command with the
/// bound arguments, this line and this output variable
#[verifier::opaque]
pub open spec fn dispatch_ok(
    instruction: Instruction, line: usize, instrs: Seq<Instruction>,
    c0: Commands, v0: Map<String, String>, s0: Map<String, StateValue>, e0: Env,
    res: CommandResult, out: Option<String>,
    c1: Commands, v1: Map<String, String>, s1: Map<String, StateValue>, e1: Env) -> bool
{
    let same = c1 == c0 && v1 == v0 && s1 == s0 && e1 == e0;
    match instruction.instruction_type {
        InstructionType::Empty => res == CommandResult::Continue(None) && out is None && same,
        InstructionType::PreProcess(_) => res == CommandResult::Continue(None) && out is None && same,
        InstructionType::Script(s) => out == s.output && match s.command {
            None => res == CommandResult::Continue(None) && same,
            Some(c) => match c0.lookup(c@) {
                None => res is Crash && same,
                Some(cmd) => cmd.run_rel(
                    CallIn { arguments: bind_spec(v0, oseq(s.arguments), instruction.meta_info), line, output_variable: out,
                             variables: v0, state: s0, commands: c0, env: e0, instructions: instrs },
                    res,
                    CallOut { variables: v1, state: s1, commands: c1, env: e1 }),
            },
        },
    }
}
/// the on_error protocol: message, source line (0 when unknown) and source file ("" when unknown)
pub open spec fn on_error_args_ok(args: Seq<String>, error: String, meta: InstructionMetaInfo) -> bool {
    args.len() == 3 && args[0] == error
    && args[1]@ == crate::dec_spec((if meta.line is Some { meta.line->0 } else { 0usize }) as int)
    && args[2]@ == (if meta.source is Some { meta.source->0@ } else { ""@ })
}
pub open spec fn on_err_outcome(res: CommandResult) -> Result<(), Seq<char>> {
    match res { CommandResult::Exit(_) => Err("Exiting Script."@), CommandResult::Crash(e) => Err(e@), _ => Ok(()) }
}
pub open spec fn rview(r: Result<(), String>) -> Result<(), Seq<char>> { match r { Ok(_) => Ok(()), Err(e) => Err(e@) } }
/// the on_error protocol of the statement, as a relation between the state handed to it and what it leaves
#[verifier::opaque]
pub open spec fn on_error_post(c0: Commands, v0: Map<String, String>, s0: Map<String, StateValue>, e0: Env, instrs: Seq<Instruction>,
    error: String, meta: InstructionMetaInfo, r: Result<(), Seq<char>>, c1: Commands, v1: Map<String, String>, s1: Map<String, StateValue>, e1: Env) -> bool
{
    if c0.lookup("on_error"@) is None { r is Ok && c1 == c0 && v1 == v0 && s1 == s0 && e1 == e0 }
    else {
        exists|args: Seq<String>, res: CommandResult|
            on_error_args_ok(args, error, meta)
            && #[trigger] c0.lookup("on_error"@)->0.run_rel(
                // C03/C10: the message, line and file are reported as they are (they are data, not written arguments)
                CallIn { arguments: args, line: 0, output_variable: None,
                         variables: v0, state: s0, commands: c0, env: e0, instructions: instrs },
                res,
                CallOut { variables: v1, state: s1, commands: c1, env: e1 })
            && r == on_err_outcome(res)
    }
}

// ---- the whole run as a trace of steps (C03: "the sequence of commands invoked, the arguments they see,
// the final variables and the success or failure (with line) of the run equal those of this abstract machine") ----
pub struct Step {
    pub line: usize, pub res: CommandResult, pub out: Option<String>,
    pub c0: Commands, pub v0: Map<String, String>, pub s0: Map<String, StateValue>, pub e0: Env,   // handed to the instruction
    pub c1: Commands, pub v1: Map<String, String>, pub s1: Map<String, StateValue>, pub e1: Env,   // left by the command
    // only meaningful for Error results: outcome of the on_error protocol and the state it leaves
    pub eo: Result<(), Seq<char>>, pub c2: Commands, pub v2e: Map<String, String>, pub s2: Map<String, StateValue>, pub e2: Env,
}
pub open spec fn false_str() -> String { skey("false"@) }
/// variables after the runner reacted to the result
pub open spec fn v_after(st: Step) -> Map<String, String> {
    match st.res {
        CommandResult::Continue(o) => upd(st.v1, st.out, o),
        CommandResult::GoTo(o, _) => upd(st.v1, st.out, o),
        CommandResult::Exit(o) => upd(st.v1, st.out, o),
        CommandResult::Error(_) => st.v2e,
        CommandResult::Crash(_) => st.v1,
    }
}
pub open spec fn step_ok(instrs: Seq<Instruction>, st: Step) -> bool {
    &&& st.line < instrs.len()
    // exactly one dispatch of the instruction at `line`, with this line number, on the current variables
    &&& dispatch_ok(instrs[st.line as int], st.line, instrs, st.c0, st.v0, st.s0, st.e0, st.res, st.out, st.c1, st.v1, st.s1, st.e1)
    // the flag was not raised when the instruction was started (sequential reading of C13)
    &&& !st.e0.halt_now()
    // error: output becomes 'false', then the on_error protocol with the message and the instruction's own line/source
    &&& st.res matches CommandResult::Error(m) ==> on_error_post(st.c1, upd(st.v1, st.out, Some(false_str())), st.s1, st.e1, instrs, m, instrs[st.line as int].meta_info,
            st.eo, st.c2, st.v2e, st.s2, st.e2)
}
pub enum Next { To(usize), StopOk, StopErr }
pub open spec fn nonzero_exit(o: Option<String>) -> bool { o is Some && crate::parse_i32_spec(o->0@) is Some && crate::parse_i32_spec(o->0@)->0 != 0 }
pub open spec fn next_of(st: Step, labels: Map<String, usize>, repl: bool) -> Next {
    match st.res {
        CommandResult::Continue(_) => Next::To((st.line + 1) as usize),
        CommandResult::GoTo(_, GoToValue::Line(k)) => Next::To(k),
        CommandResult::GoTo(_, GoToValue::Label(l)) => if labels.contains_key(l) { Next::To(labels[l]) } else { Next::StopErr },
        CommandResult::Exit(o) => if !repl && nonzero_exit(o) { Next::StopErr } else { Next::StopOk },
        CommandResult::Error(_) => if st.eo is Ok { Next::To((st.line + 1) as usize) } else { Next::StopErr },
        CommandResult::Crash(_) => if repl { Next::StopOk } else { Next::StopErr },
    }
}
#[verifier::opaque]
pub open spec fn trace_ok(instrs: Seq<Instruction>, labels: Map<String, usize>, repl: bool, start: usize, v_init: Map<String, String>, tr: Seq<Step>) -> bool {
    &&& forall|i: int| 0 <= i < tr.len() ==> step_ok(instrs, #[trigger] tr[i])
    &&& forall|i: int| 0 <= i < tr.len() ==> (#[trigger] tr[i]).line == (if i == 0 { start } else { next_of(tr[i - 1], labels, repl)->To_0 })
    &&& forall|i: int| 0 <= i < tr.len() ==> (#[trigger] tr[i]).v0 == (if i == 0 { v_init } else { v_after(tr[i - 1]) })
    &&& forall|i: int| 0 <= i < tr.len() - 1 ==> next_of(#[trigger] tr[i], labels, repl) is To
}
/// where the machine stands after the trace
pub open spec fn cur_line(labels: Map<String, usize>, repl: bool, start: usize, tr: Seq<Step>) -> usize {
    if tr.len() == 0 { start } else { next_of(tr.last(), labels, repl)->To_0 }
}
pub open spec fn cur_vars(v_init: Map<String, String>, tr: Seq<Step>) -> Map<String, String> { if tr.len() == 0 { v_init } else { v_after(tr.last()) } }
/// the environment (writers + halt flag) after the runner reacted to the result
pub open spec fn e_after(st: Step) -> Env { if st.res is Error { st.e2 } else { st.e1 } }
/// C13 (which flag is polled): the environment handed to the first instruction is the one the run was given, and each
/// later instruction gets the environment the previous one left - so the flag read before every instruction
/// (step_ok: !e0.halt_now()) is the flag of THAT environment
#[verifier::opaque]
pub open spec fn env_threaded(e_init: Env, tr: Seq<Step>) -> bool {
    forall|i: int| 0 <= i < tr.len() ==> (#[trigger] tr[i]).e0 == (if i == 0 { e_init } else { e_after(tr[i - 1]) })
}
pub open spec fn cur_env(e_init: Env, tr: Seq<Step>) -> Env { if tr.len() == 0 { e_init } else { e_after(tr.last()) } }
} // mod rspec
