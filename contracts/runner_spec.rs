// ===== runner: abstract machine pieces written from the C03 statement =====
pub mod rspec {
use vstd::prelude::*;
use crate::duckscript::types::instruction::*;
use crate::duckscript::types::command::*;
use crate::duckscript::types::error::ScriptError;
use crate::duckscript::types::env::Env;
use crate::duckscript::types::runtime::StateValue;
use crate::trusted::*;

/// continue/goto/exit store the value in the output variable or, with no value, delete it
pub open spec fn upd(vars: Map<String, String>, out: Option<String>, v: Option<String>) -> Map<String, String> {
    match out { None => vars, Some(o) => match v { Some(x) => vars.insert(o, x), None => vars.remove(o) } }
}
pub open spec fn label_of(i: Instruction) -> Option<String> {
    match i.instruction_type { InstructionType::Script(s) => s.label, _ => None }
}
pub open spec fn labels_upto(instrs: Seq<Instruction>, n: int) -> Map<String, usize>
    decreases n
{
    if n <= 0 { Map::empty() } else {
        let m = labels_upto(instrs, n - 1);
        match label_of(instrs[n - 1]) { Some(l) => m.insert(l, (n - 1) as usize), None => m }
    }
}
/// abstract callee: argument binding (decided in unit expansion)
pub uninterp spec fn bind_spec(vars: Map<String, String>, args: Option<Seq<String>>, meta: InstructionMetaInfo) -> Seq<String>;
pub open spec fn oseq(o: Option<Vec<String>>) -> Option<Seq<String>> { match o { Some(v) => Some(v@), None => None } }

/// one instruction dispatch, from the statement: empty / pre-process / command-less lines are no-ops,
/// an unknown command is a crash, otherwise exactly one invocation of the looked-up command with the
/// bound arguments, this line and this output variable
pub open spec fn dispatch_ok(
    instruction: Instruction, line: usize, instrs: Seq<Instruction>,
    c0: Commands, v0: Map<String, String>, s0: Map<String, StateValue>, e0: Env,
    res: CommandResult, out: Option<String>,
    c1: Commands, v1: Map<String, String>, s1: Map<String, StateValue>, e1: Env) -> bool
{
    let same = c1 == c0 && v1 == v0 && s1 == s0 && e1 == e0;
    match instruction.instruction_type {
        InstructionType::Empty => res == CommandResult::Continue(None) && out is None && same,
        InstructionType::PreProcess(_) => res == CommandResult::Continue(None) && out is None && same,
        InstructionType::Script(s) => out == s.output && match s.command {
            None => res == CommandResult::Continue(None) && same,
            Some(c) => match c0.lookup(c@) {
                None => res is Crash && same,
                Some(cmd) => cmd.run_rel(
                    CallIn { arguments: bind_spec(v0, oseq(s.arguments), instruction.meta_info), line, output_variable: out,
                             variables: v0, state: s0, commands: c0, env: e0, instructions: instrs },
                    res,
                    CallOut { variables: v1, state: s1, commands: c1, env: e1 }),
            },
        },
    }
}
/// the on_error protocol: message, source line (0 when unknown) and source file ("" when unknown)
pub open spec fn on_error_args_ok(args: Seq<String>, error: String, meta: InstructionMetaInfo) -> bool {
    args.len() == 3 && args[0] == error
    && args[1]@ == crate::dec_spec((if meta.line is Some { meta.line->0 } else { 0usize }) as int)
    && args[2]@ == (if meta.source is Some { meta.source->0@ } else { ""@ })
}
pub open spec fn on_err_outcome(res: CommandResult) -> Result<(), Seq<char>> {
    match res { CommandResult::Exit(_) => Err("Exiting Script."@), CommandResult::Crash(e) => Err(e@), _ => Ok(()) }
}
pub open spec fn rview(r: Result<(), String>) -> Result<(), Seq<char>> { match r { Ok(_) => Ok(()), Err(e) => Err(e@) } }
} // mod rspec
