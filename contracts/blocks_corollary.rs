// ===== C04, Layer B closed for the real keyword lists: what `if` / `while` / `for` find as their block =====
pub mod bcor {
use vstd::prelude::*;
use crate::duckscript::types::instruction::*;
use crate::duckscriptsdk::bspec::*;
use crate::duckscriptsdk::bnames::*;
use crate::duckscriptsdk::blayerb::*;
use crate::duckscriptsdk::bdist::*;
use crate::trusted::*;

/// For every package name, every script and every line: when the lines after `line` are a well-nested body (plain
/// instructions, this block's own middle keywords, blocks of the other kinds, nested blocks of the same kind - to any
/// depth, under ANY documented spelling) followed by one of the block's end keywords, the scan the block command runs
/// from line+1 (with exactly the documented spellings; contract of create_*_meta_info_for_line) returns that line as the
/// block's end and exactly the lines of its own middle keywords. No hypothesis on the name lists is left: that they do
/// not collide is thm_names_ok_* (contracts/blocks_names_distinct.rs).
pub proof fn thm_block(instrs: Seq<Instruction>, n: Names, line: int, xs: Seq<Blk>)
    requires names_ok(n), 0 <= line, at_seq(instrs, n, line + 1, xs, false), is_kw(instrs, line + 1 + lens(xs), n.end), line + 1 + lens(xs) < instrs.len(),
    ensures fc(instrs, n, line + 1, instrs.len() as int, line + 1, 0, Seq::empty()) == Ok::<(Seq<usize>, int), ()>((mids(xs, line + 1), line + 1 + lens(xs))),
{
    thm_fc(instrs, n, line + 1, xs, instrs.len() as int, Seq::empty());
    lemma_skip_insens(instrs, n, line + 1, instrs.len() as int, line + 1, 0, 0, Seq::empty());
    assert(Seq::<usize>::empty() + mids(xs, line + 1) =~= mids(xs, line + 1));
}
pub proof fn thm_if_block(instrs: Seq<Instruction>, p: Seq<char>, line: int, xs: Seq<Blk>)
    requires 0 <= line, at_seq(instrs, if_names(p), line + 1, xs, false), is_kw(instrs, line + 1 + lens(xs), if_names(p).end), line + 1 + lens(xs) < instrs.len(),
    ensures fc(instrs, if_names(p), line + 1, instrs.len() as int, line + 1, 0, Seq::empty()) == Ok::<(Seq<usize>, int), ()>((mids(xs, line + 1), line + 1 + lens(xs))),
{ thm_names_ok_if(p); thm_block(instrs, if_names(p), line, xs); }
pub proof fn thm_while_block(instrs: Seq<Instruction>, p: Seq<char>, line: int, xs: Seq<Blk>)
    requires 0 <= line, at_seq(instrs, while_names(p), line + 1, xs, false), is_kw(instrs, line + 1 + lens(xs), while_names(p).end), line + 1 + lens(xs) < instrs.len(),
    ensures fc(instrs, while_names(p), line + 1, instrs.len() as int, line + 1, 0, Seq::empty()) == Ok::<(Seq<usize>, int), ()>((mids(xs, line + 1), line + 1 + lens(xs))),
{ thm_names_ok_while(p); thm_block(instrs, while_names(p), line, xs); }
pub proof fn thm_for_block(instrs: Seq<Instruction>, p: Seq<char>, line: int, xs: Seq<Blk>)
    requires 0 <= line, at_seq(instrs, for_names(p), line + 1, xs, false), is_kw(instrs, line + 1 + lens(xs), for_names(p).end), line + 1 + lens(xs) < instrs.len(),
    ensures fc(instrs, for_names(p), line + 1, instrs.len() as int, line + 1, 0, Seq::empty()) == Ok::<(Seq<usize>, int), ()>((mids(xs, line + 1), line + 1 + lens(xs))),
{ thm_names_ok_for(p); thm_block(instrs, for_names(p), line, xs); }
} // mod bcor
