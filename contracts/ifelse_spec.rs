// ===== if/elseif/else: block descriptions and the stack of running if-chains (C04 transition contracts) =====
pub mod ifspec {
use vstd::prelude::*;
use crate::duckscript::types::runtime::StateValue;
use crate::duckscriptsdk::sspec::*;
use crate::duckscriptsdk::fspec::{has_unum, has_str, ctx_key, ctx_name, lemma_skey_inj};
use crate::trusted::*;
broadcast use crate::trusted::strings;

pub open spec fn if_key() -> String { skey(concat_spec("duckscriptsdk::command"@, "ifelse"@)) }
pub open spec fn end_key() -> String { skey(concat_spec("duckscriptsdk::command"@, "end"@)) }
pub open spec fn ifst(state: Map<String, StateValue>) -> Map<String, StateValue> { sub_of(state, if_key()) }
/// the stack of running if-chains, oldest first
pub open spec fn if_stack(state: Map<String, StateValue>) -> Seq<StateValue> { list_of(ifst(state), skey("call_stack"@)) }
/// the cache of block descriptions, by line key
pub open spec fn if_cache(state: Map<String, StateValue>) -> Map<String, StateValue> { sub_of(ifst(state), skey("meta_info"@)) }

/// a block: the line of the `if`, the line of its end, the lines of its elseif / else members in order
pub struct MIV { pub start: usize, pub end: usize, pub else_lines: Seq<usize> }
/// a running chain: the member line expected next, whether a branch has run, which member, the block, the context
pub struct ICV { pub current: usize, pub passed: bool, pub else_line_index: usize, pub meta: MIV, pub ctx: Seq<char> }

pub open spec fn unums(l: Seq<StateValue>) -> Option<Seq<usize>>
    decreases l.len()
{
    if l.len() == 0 { Some(Seq::empty()) }
    else {
        match (unums(l.drop_last()), l.last()) {
            (Some(p), StateValue::UnsignedNumber(v)) => Some(p.push(v)),
            _ => None,
        }
    }
}
pub proof fn lemma_unums_push(l: Seq<StateValue>, v: usize)
    requires unums(l) is Some
    ensures unums(l.push(StateValue::UnsignedNumber(v))) == Some(unums(l)->0.push(v))
{
    assert(l.push(StateValue::UnsignedNumber(v)).drop_last() =~= l);
}
pub proof fn lemma_unums_prefix(l: Seq<StateValue>, i: int)
    requires 0 <= i <= l.len(), unums(l) is Some
    ensures unums(l.take(i)) is Some, unums(l.take(i))->0 =~= unums(l)->0.take(i), unums(l)->0.len() == l.len()
    decreases l.len()
{
    if l.len() == 0 { assert(l.take(i) =~= l); }
    else if i == l.len() { assert(l.take(i) =~= l); lemma_unums_len(l); }
    else {
        lemma_unums_prefix(l.drop_last(), i);
        assert(l.drop_last().take(i) =~= l.take(i));
        lemma_unums_len(l);
    }
}
pub proof fn lemma_unums_len(l: Seq<StateValue>)
    requires unums(l) is Some
    ensures unums(l)->0.len() == l.len()
    decreases l.len()
{
    if l.len() > 0 { lemma_unums_len(l.drop_last()); }
}
/// one element that is not an unsigned number spoils the list
pub proof fn lemma_unums_none(l: Seq<StateValue>, i: int)
    requires 0 <= i < l.len(), !(l[i] is UnsignedNumber)
    ensures unums(l) is None
    decreases l.len()
{
    if i < l.len() - 1 { lemma_unums_none(l.drop_last(), i); }
}
pub proof fn lemma_unums_step(l: Seq<StateValue>, i: int)
    requires 0 <= i < l.len(), unums(l.take(i)) is Some, l[i] is UnsignedNumber
    ensures unums(l.take(i + 1)) == Some(unums(l.take(i))->0.push(l[i]->UnsignedNumber_0))
{
    assert(l.take(i + 1).drop_last() =~= l.take(i));
    assert(l.take(i + 1).last() == l[i]);
}

pub open spec fn meta_view(m: Map<String, StateValue>) -> Option<MIV> {
    if has_unum(m, "start"@) && has_unum(m, "end"@) && m.contains_key(skey("else_lines"@)) && m[skey("else_lines"@)] is List
        && unums(m[skey("else_lines"@)]->List_0@) is Some
    {
        Some(MIV { start: m[skey("start"@)]->UnsignedNumber_0, end: m[skey("end"@)]->UnsignedNumber_0, else_lines: unums(m[skey("else_lines"@)]->List_0@)->0 })
    } else { None }
}
pub open spec fn ci_view(m: Map<String, StateValue>) -> Option<ICV> {
    if has_unum(m, "current"@) && m.contains_key(skey("passed"@)) && m[skey("passed"@)] is Boolean && has_unum(m, "else_line_index"@)
        && m.contains_key(skey("meta_info"@)) && m[skey("meta_info"@)] is SubState && meta_view(m[skey("meta_info"@)]->SubState_0@) is Some
        && has_str(m, "line_context_name"@)
    {
        Some(ICV { current: m[skey("current"@)]->UnsignedNumber_0, passed: m[skey("passed"@)]->Boolean_0, else_line_index: m[skey("else_line_index"@)]->UnsignedNumber_0,
                   meta: meta_view(m[skey("meta_info"@)]->SubState_0@)->0, ctx: m[skey("line_context_name"@)]->String_0@ })
    } else { None }
}
/// popping for the member at `line`: entries that are no sub-states and chains waiting for another member (or
/// another context) are discarded; a sub-state that is no chain ends the search with nothing
pub open spec fn ipop_spec(st: Seq<StateValue>, line: usize, ctx: Seq<char>) -> (Option<ICV>, Seq<StateValue>)
    decreases st.len()
{
    if st.len() == 0 { (None, st) }
    else {
        let top = st.last();
        let rest = st.drop_last();
        if top is SubState {
            match ci_view(top->SubState_0@) {
                Some(c) => if c.current == line && c.ctx == ctx { (Some(c), rest) } else { ipop_spec(rest, line, ctx) },
                None => (None, rest),
            }
        } else { ipop_spec(rest, line, ctx) }
    }
}
pub proof fn lemma_ipop_shorter(st: Seq<StateValue>, line: usize, ctx: Seq<char>)
    ensures ipop_spec(st, line, ctx).1.len() <= st.len(),
    decreases st.len()
{
    if st.len() > 0 {
        lemma_ipop_shorter(st.drop_last(), line, ctx);
    }
}
/// nothing but the stack of running if-chains changed (and the context name was at most read)
pub open spec fn only_if_stack_changed(s0: Map<String, StateValue>, s1: Map<String, StateValue>) -> bool {
    &&& s1.remove(if_key()).remove(ctx_key()) =~= s0.remove(if_key()).remove(ctx_key())
    &&& ctx_name(s1) == ctx_name(s0)
    &&& is_sub(s1, if_key())
    &&& ifst(s1).remove(skey("call_stack"@)) =~= ifst(s0).remove(skey("call_stack"@))
    &&& is_list(ifst(s1), skey("call_stack"@))
}
pub open spec fn line_key(ctx: Seq<char>, line: usize) -> String { skey(ctx + "::"@ + crate::dec_spec(line as int)) }

pub proof fn lemma_if_keys_distinct()
    ensures if_key() != ctx_key(), end_key() != ctx_key(), if_key() != end_key(), skey("meta_info"@) != skey("call_stack"@),
{
    reveal_strlit("duckscriptsdk::runtime"); reveal_strlit("line_context_name"); reveal_strlit("duckscriptsdk::command"); reveal_strlit("ifelse");
    reveal_strlit("end"); reveal_strlit("::"); reveal_strlit("meta_info"); reveal_strlit("call_stack");
    assert(concat_spec("duckscriptsdk::runtime"@, "line_context_name"@).len() == 41);
    assert(concat_spec("duckscriptsdk::command"@, "ifelse"@).len() == 30);
    assert(concat_spec("duckscriptsdk::command"@, "end"@).len() == 27);
    assert("meta_info"@.len() == 9 && "call_stack"@.len() == 10);
    lemma_skey_inj(concat_spec("duckscriptsdk::command"@, "ifelse"@), concat_spec("duckscriptsdk::runtime"@, "line_context_name"@));
    lemma_skey_inj(concat_spec("duckscriptsdk::command"@, "end"@), concat_spec("duckscriptsdk::runtime"@, "line_context_name"@));
    lemma_skey_inj(concat_spec("duckscriptsdk::command"@, "ifelse"@), concat_spec("duckscriptsdk::command"@, "end"@));
    lemma_skey_inj("meta_info"@, "call_stack"@);
}
} // mod ifspec
