// ===== expansion, Layer B (code independent): the reference scanner xscan/xfinish yields what the C02 statement
// demands for every argument written as a sequence of plain characters, ${name} references and \${name} escapes =====
pub mod xlayerb {
use vstd::prelude::*;
use crate::trusted::*;
use crate::duckscript::xspec::*;

/// a piece of a written argument
pub enum Piece {
    /// one plain character (anything but $ % \ which start a reference or an escape)
    Ch(char),
    /// ${name}
    Ref(Seq<char>),
    /// \${name}: stays the literal text ${name}
    Esc(Seq<char>),
}
pub open spec fn name_ok(n: Seq<char>) -> bool { forall|i: int| 0 <= i < n.len() ==> (#[trigger] n[i]) != '}' && !break_key(n[i]) }
pub open spec fn piece_ok(p: Piece) -> bool {
    match p { Piece::Ch(c) => c != '$' && c != '%' && c != '\\', Piece::Ref(n) => name_ok(n), Piece::Esc(n) => true }
}
/// the text as written
pub open spec fn written(p: Piece) -> Seq<char> {
    match p { Piece::Ch(c) => seq![c], Piece::Ref(n) => seq!['$', '{'] + n + seq!['}'], Piece::Esc(n) => seq!['\\', '$', '{'] + n + seq!['}'] }
}
/// what the command receives for it: the value of the variable (nothing if undefined), verbatim
pub open spec fn received(p: Piece, vars: Map<String, String>) -> Seq<char> {
    match p {
        Piece::Ch(c) => seq![c],
        Piece::Ref(n) => if vars.contains_key(skey(n)) { vars[skey(n)]@ } else { Seq::empty() },
        Piece::Esc(n) => seq!['$', '{'] + n + seq!['}'],
    }
}
pub open spec fn written_all(ps: Seq<Piece>) -> Seq<char> decreases ps.len() { if ps.len() == 0 { Seq::empty() } else { written_all(ps.drop_last()) + written(ps.last()) } }
pub open spec fn received_all(ps: Seq<Piece>, vars: Map<String, String>) -> Seq<char> decreases ps.len() {
    if ps.len() == 0 { Seq::empty() } else { received_all(ps.drop_last(), vars) + received(ps.last(), vars) }
}
/// between pieces the scanner is in a neutral state: nothing pending
pub open spec fn neutral(st: XSt) -> bool { st.pi == 0 && !st.found_prefix && st.key.len() == 0 && !st.force_push }

/// scanning a suffix piece by piece: xscan over a concatenation
pub proof fn lemma_xscan_split(a: Seq<char>, b: Seq<char>, st: XSt, vars: Map<String, String>)
    ensures xscan(a + b, 0, st, vars) == xscan(b, 0, xscan(a, 0, st, vars), vars)
    decreases a.len()
{
    lemma_xscan_shift(a, b, 0, st, vars);
}
pub proof fn lemma_xscan_shift(a: Seq<char>, b: Seq<char>, i: int, st: XSt, vars: Map<String, String>)
    requires 0 <= i <= a.len()
    ensures xscan(a + b, i, st, vars) == xscan(b, 0, xscan(a, i, st, vars), vars)
    decreases a.len() - i
{
    if i < a.len() {
        assert((a + b)[i] == a[i]);
        lemma_xscan_shift(a, b, i + 1, xstep(st, a[i], vars), vars);
    } else {
        lemma_xscan_tail(a, b, 0, st, vars);
    }
}
pub proof fn lemma_xscan_tail(a: Seq<char>, b: Seq<char>, j: int, st: XSt, vars: Map<String, String>)
    requires 0 <= j <= b.len()
    ensures xscan(a + b, a.len() + j, st, vars) == xscan(b, j, st, vars)
    decreases b.len() - j
{
    if j < b.len() {
        assert((a + b)[a.len() + j] == b[j]);
        lemma_xscan_tail(a, b, j + 1, xstep(st, b[j], vars), vars);
    }
}
/// the characters of a name are collected into the key
pub proof fn lemma_key(n: Seq<char>, i: int, st: XSt, vars: Map<String, String>)
    requires name_ok(n), 0 <= i <= n.len(), st.found_prefix,
    ensures xscan(n, i, st, vars) == (XSt { key: st.key + n.subrange(i, n.len() as int), ..st })
    decreases n.len() - i
{
    if i < n.len() {
        let st2 = xstep(st, n[i], vars);
        assert(st2 == XSt { key: st.key.push(n[i]), ..st });
        lemma_key(n, i + 1, st2, vars);
        assert(st.key.push(n[i]) + n.subrange(i + 1, n.len() as int) =~= st.key + n.subrange(i, n.len() as int));
    } else {
        assert(st.key + n.subrange(i, n.len() as int) =~= st.key);
    }
}
/// plain characters after an escape are copied one by one
pub proof fn lemma_plain(n: Seq<char>, i: int, st: XSt, vars: Map<String, String>)
    requires 0 <= i <= n.len(), neutral(st), forall|k: int| i <= k < n.len() ==> (#[trigger] n[k]) != '$' && n[k] != '%' && n[k] != '\\',
    ensures xscan(n, i, st, vars) == (XSt { vs: st.vs + n.subrange(i, n.len() as int), ..st })
    decreases n.len() - i
{
    if i < n.len() {
        let st2 = xstep(st, n[i], vars);
        assert(st2 == XSt { vs: st.vs.push(n[i]), ..st });
        lemma_plain(n, i + 1, st2, vars);
        assert(st.vs.push(n[i]) + n.subrange(i + 1, n.len() as int) =~= st.vs + n.subrange(i, n.len() as int));
    } else {
        assert(st.vs + n.subrange(i, n.len() as int) =~= st.vs);
    }
}
/// one piece, from a neutral state: the received text is appended, the state is neutral again
pub proof fn lemma_piece(p: Piece, st: XSt, vars: Map<String, String>)
    requires piece_ok(p), neutral(st),
        // an escaped name is plain text for the scanner
        p matches Piece::Esc(n) ==> forall|k: int| 0 <= k < n.len() ==> (#[trigger] n[k]) != '$' && n[k] != '%' && n[k] != '\\',
    ensures neutral(xscan(written(p), 0, st, vars)), xscan(written(p), 0, st, vars).vs == st.vs + received(p, vars),
{
    match p {
        Piece::Ch(c) => {
            assert(xscan(seq![c], 1, xstep(st, c, vars), vars) == xstep(st, c, vars));
            assert(xstep(st, c, vars).vs =~= st.vs + seq![c]);
        }
        Piece::Ref(n) => {
            let w = written(p);
            let head = seq!['$', '{'];
            let s1 = xstep(st, '$', vars);
            let s2 = xstep(s1, '{', vars);
            assert(s2.found_prefix && s2.key.len() == 0 && s2.vs == st.vs && s2.pi == 0 && !s2.force_push);
            lemma_xscan_split(head, n + seq!['}'], st, vars);
            assert(w =~= head + (n + seq!['}']));
            assert(xscan(head, 0, st, vars) == s2) by {
                assert(xscan(head, 2, s2, vars) == s2);
                assert(xscan(head, 1, s1, vars) == xscan(head, 2, xstep(s1, head[1], vars), vars));
            }
            lemma_xscan_split(n, seq!['}'], s2, vars);
            lemma_key(n, 0, s2, vars);
            assert(n.subrange(0, n.len() as int) =~= n);
            let s3 = XSt { key: s2.key + n, ..s2 };
            assert(s2.key + n =~= n);
            let s4 = xstep(s3, '}', vars);
            assert(xscan(seq!['}'], 0, s3, vars) == s4) by { assert(xscan(seq!['}'], 1, s4, vars) == s4); }
            assert(s4.key.len() == 0 && !s4.found_prefix && s4.pi == 0 && !s4.force_push);
            assert(s4.vs =~= st.vs + received(p, vars));
        }
        Piece::Esc(n) => {
            let w = written(p);
            let head = seq!['\\', '$'];
            let rest = seq!['{'] + n + seq!['}'];
            assert(w =~= head + rest);
            let s1 = xstep(st, '\\', vars);
            let s2 = xstep(s1, '$', vars);
            assert(s1.force_push && s1.vs == st.vs);
            assert(neutral(s2) && s2.vs =~= st.vs.push('$'));
            lemma_xscan_split(head, rest, st, vars);
            assert(xscan(head, 0, st, vars) == s2) by {
                assert(xscan(head, 2, s2, vars) == s2);
                assert(xscan(head, 1, s1, vars) == xscan(head, 2, xstep(s1, head[1], vars), vars));
            }
            assert forall|k: int| 0 <= k < rest.len() implies (#[trigger] rest[k]) != '$' && rest[k] != '%' && rest[k] != '\\' by {
                if k == 0 { } else if k <= n.len() { assert(rest[k] == n[k - 1]); } else { }
            }
            lemma_plain(rest, 0, s2, vars);
            assert(rest.subrange(0, rest.len() as int) =~= rest);
            assert(st.vs.push('$') + rest =~= st.vs + received(p, vars));
        }
    }
}
pub open spec fn pieces_ok(ps: Seq<Piece>) -> bool {
    forall|i: int| 0 <= i < ps.len() ==> piece_ok(#[trigger] ps[i])
        && ((ps[i]) matches Piece::Esc(n) ==> forall|k: int| 0 <= k < n.len() ==> (#[trigger] n[k]) != '$' && n[k] != '%' && n[k] != '\\')
}
/// C02 (text of one argument): the written text with every ${name} replaced by the value of that variable (nothing
/// if undefined) and every \${name} left as the literal ${name}; a substituted value is appended in one step and
/// never scanned, whatever characters it contains
pub proof fn thm_template(ps: Seq<Piece>, st: XSt, vars: Map<String, String>)
    requires pieces_ok(ps), neutral(st),
    ensures neutral(xscan(written_all(ps), 0, st, vars)),
        xscan(written_all(ps), 0, st, vars).vs == st.vs + received_all(ps, vars),
        xfinish(xscan(written_all(ps), 0, st, vars)) == st.vs + received_all(ps, vars),
    decreases ps.len()
{
    if ps.len() == 0 {
        assert(st.vs + received_all(ps, vars) =~= st.vs);
    } else {
        let init = ps.drop_last();
        assert forall|i: int| 0 <= i < init.len() implies piece_ok(#[trigger] init[i])
            && ((init[i]) matches Piece::Esc(n) ==> forall|k: int| 0 <= k < n.len() ==> (#[trigger] n[k]) != '$' && n[k] != '%' && n[k] != '\\') by { assert(init[i] == ps[i]); }
        thm_template(init, st, vars);
        let mid = xscan(written_all(init), 0, st, vars);
        lemma_xscan_split(written_all(init), written(ps.last()), st, vars);
        assert(piece_ok(ps[ps.len() - 1]));
        lemma_piece(ps.last(), mid, vars);
        assert(st.vs + received_all(init, vars) + received(ps.last(), vars) =~= st.vs + received_all(ps, vars));
    }
}
/// ... and the whole argument: an argument made of such pieces that is not the spread form is received as exactly
/// one argument with that text (no argument at all only shows as the empty text)
pub proof fn thm_one_argument(ps: Seq<Piece>, vars: Map<String, String>)
    requires pieces_ok(ps), !spread_form(written_all(ps)),
    ensures contrib(expand_spec(written_all(ps), vars)) == seq![received_all(ps, vars)],
{
    thm_template(ps, xinit(), vars);
    assert(xinit().vs + received_all(ps, vars) =~= received_all(ps, vars));
    let vs = xfinish(xscan(written_all(ps), 0, xinit(), vars));
    if vs.len() == 0 { assert(vs =~= ""@) by { reveal_strlit(""); } }
}
/// text without `$`, `%` and backslash is received as it is written (used by C09: the words of a re-parsed statement
/// are bound a second time when the statement runs; for such words the second binding changes nothing)
pub open spec fn no_ref(v: Seq<char>) -> bool { forall|k: int| 0 <= k < v.len() ==> (#[trigger] v[k]) != '$' && v[k] != '%' && v[k] != '\\' }
pub proof fn lemma_plain_argument(v: Seq<char>, vars: Map<String, String>)
    requires no_ref(v)
    ensures contrib(expand_spec(v, vars)) == seq![v]
{
    lemma_plain(v, 0, xinit(), vars);
    assert(v.subrange(0, v.len() as int) =~= v);
    assert(xinit().vs + v =~= v);
    assert(!spread_form(v)) by { if v.len() >= 3 { assert(v[0] != '%'); } }
    let vs = xfinish(xscan(v, 0, xinit(), vars));
    assert(vs == v);
    if vs.len() == 0 { assert(vs =~= ""@) by { reveal_strlit(""); } }
}
pub proof fn thm_plain_arguments_unchanged(vars: Map<String, String>, args: Seq<Seq<char>>, n: int)
    requires 0 <= n <= args.len(), forall|k: int| 0 <= k < args.len() ==> no_ref(#[trigger] args[k]),
    ensures bind_upto(vars, args, n) == args.take(n)
    decreases n
{
    if n > 0 {
        thm_plain_arguments_unchanged(vars, args, n - 1);
        lemma_plain_argument(args[n - 1], vars);
        assert(args.take(n - 1) + seq![args[n - 1]] =~= args.take(n));
    } else {
        assert(args.take(0) =~= Seq::<Seq<char>>::empty());
    }
}
} // mod xlayerb
