// ===== parser lemmas (proved by Verus; independent of the code) =====
/// a Done scan never moves backwards and never leaves the line; entering an argument consumes a char
pub proof fn lemma_scan_progress(line: Seq<char>, i: int, st: St, f: Flags)
    requires 0 <= i <= line.len(), !st.in_argument ==> st.arg.len() == 0 && !st.using_quotes,
    ensures match scan(line, i, st, f) {
        Scan::Done { index, st: st2, found_end } => i <= index <= line.len() && (!st.in_argument && st2.in_argument ==> index > i)
            && (!st2.in_argument ==> st2.arg.len() == 0 && !st2.using_quotes),
        Scan::Fail(_) => true,
    }
    decreases line.len() - i
{
    if i < line.len() {
        let c = line[i];
        // one unfolding per branch: recursive calls all go to i + 1
        if st.in_argument {
            if st.in_control {
                if st.fvp {
                    if c == '{' { lemma_scan_progress(line, i + 1, St { arg: st.arg + "\\${"@, in_control: false, fvp: false, ..st }, f); }
                } else if c == '\\' || c == '"' { lemma_scan_progress(line, i + 1, St { arg: st.arg.push(c), in_control: false, ..st }, f); }
                else if c == 'n' { lemma_scan_progress(line, i + 1, St { arg: st.arg.push('\n'), in_control: false, ..st }, f); }
                else if c == 'r' { lemma_scan_progress(line, i + 1, St { arg: st.arg.push('\r'), in_control: false, ..st }, f); }
                else if c == 't' { lemma_scan_progress(line, i + 1, St { arg: st.arg.push('\t'), in_control: false, ..st }, f); }
                else if c == '$' { lemma_scan_progress(line, i + 1, St { fvp: true, ..st }, f); }
            } else if c == '\\' {
                if f.control_as_char { lemma_scan_progress(line, i + 1, St { arg: st.arg.push(c), ..st }, f); }
                else if f.allow_control { lemma_scan_progress(line, i + 1, St { in_control: true, fvp: false, ..st }, f); }
            } else if st.using_quotes && c == '"' {
            } else if !st.using_quotes && (c == ' ' || c == '#' || (f.stop_on_equals && c == '=')) {
            } else { lemma_scan_progress(line, i + 1, St { arg: st.arg.push(c), ..st }, f); }
        } else if c == '#' {
        } else if c != ' ' {
            if c == '"' {
                if f.allow_quotes { lemma_scan_progress(line, i + 1, St { in_argument: true, using_quotes: true, ..st }, f); }
            } else if c == '\\' {
                if f.control_as_char { lemma_scan_progress(line, i + 1, St { in_argument: true, arg: st.arg.push(c), ..st }, f); }
                else if f.allow_control { lemma_scan_progress(line, i + 1, St { in_argument: true, in_control: true, ..st }, f); }
            } else { lemma_scan_progress(line, i + 1, St { in_argument: true, arg: st.arg.push(c), ..st }, f); }
        } else { lemma_scan_progress(line, i + 1, st, f); }
    }
}
/// a value that was found ends strictly after its start, inside the line
pub proof fn lemma_pnv_progress(line: Seq<char>, i: int, f: Flags)
    requires 0 <= i
    ensures match pnv_spec(line, i, f) {
        Ok((n, Some(a))) => i < n <= line.len(),
        Ok((n, None)) => i <= n && (i <= line.len() ==> n <= line.len()),
        Err(_) => true,
    }
{
    if i < line.len() { lemma_scan_progress(line, i, st0(), f); }
}
pub proof fn lemma_fns_bounds(line: Seq<char>, i: int)
    requires 0 <= i <= line.len()
    ensures i <= first_non_space(line, i) <= line.len(),
        first_non_space(line, i) < line.len() ==> line[first_non_space(line, i)] != ' ',
        forall|j: int| i <= j < first_non_space(line, i) ==> line[j] == ' ',
    decreases line.len() - i
{
    if i < line.len() && line[i] == ' ' { lemma_fns_bounds(line, i + 1); }
}
