// ===== collections behind handles: reference model pieces (C12 statement) =====
pub mod collspec {
use vstd::prelude::*;
use crate::duckscript::types::runtime::StateValue;
use crate::duckscript::types::command::{CallIn, CallOut, CommandResult};
use crate::duckscriptsdk::sspec::*;
use crate::trusted::*;

pub open spec fn hk() -> String { skey("handles"@) }
/// values are stored verbatim as strings
pub open spec fn strvals(a: Seq<String>) -> Seq<StateValue> { a.map_values(|s: String| StateValue::String(s)) }
/// nothing about any collection changed
pub open spec fn coll_same(s0: Map<String, StateValue>, s1: Map<String, StateValue>) -> bool {
    handles(s1) =~= handles(s0) && s1.remove(hk()) =~= s0.remove(hk())
}
/// exactly the collection behind handle h changed, to value v
pub open spec fn coll_upd(s0: Map<String, StateValue>, s1: Map<String, StateValue>, h: String) -> bool {
    is_sub(s1, hk()) && s1.remove(hk()) =~= s0.remove(hk())
    && handles(s1).contains_key(h) && handles(s1).remove(h) =~= handles(s0).remove(h)
}
pub open spec fn rest_same(inp: CallIn, out: CallOut) -> bool {
    out.variables == inp.variables && out.commands == inp.commands && out.env == inp.env
}
pub open spec fn is_true_str(res: CommandResult) -> bool { res matches CommandResult::Continue(Some(t)) && t@ == "true"@ }
pub open spec fn is_false_str(res: CommandResult) -> bool { res matches CommandResult::Continue(Some(t)) && t@ == "false"@ }
pub open spec fn out_text(res: CommandResult) -> Option<Seq<char>> {
    match res { CommandResult::Continue(Some(t)) => Some(t@), _ => None }
}
pub open spec fn live_list(s: Map<String, StateValue>, h: String) -> bool { is_list(handles(s), h) }
pub open spec fn the_list(s: Map<String, StateValue>, h: String) -> Seq<StateValue> { list_of(handles(s), h) }
pub open spec fn live_map(s: Map<String, StateValue>, h: String) -> bool { is_sub(handles(s), h) }
pub open spec fn the_map(s: Map<String, StateValue>, h: String) -> Map<String, StateValue> { sub_of(handles(s), h) }
pub open spec fn live_set(s: Map<String, StateValue>, h: String) -> bool { handles(s).contains_key(h) && handles(s)[h] is Set }
pub open spec fn the_set(s: Map<String, StateValue>, h: String) -> Set<String> { if live_set(s, h) { handles(s)[h]->Set_0@ } else { Set::empty() } }
pub open spec fn has_between(s: Seq<String>, a: int, b: int, x: String) -> bool { exists|j: int| a <= j < b && #[trigger] s[j] == x }
/// s1 = s0 plus the arguments after the handle
pub open spec fn set_put_rel(s0: Set<String>, s1: Set<String>, args: Seq<String>, upto: int) -> bool {
    forall|x: String| #[trigger] s1.contains(x) <==> (s0.contains(x) || has_between(args, 1, upto, x))
}
/// a listing: every item is a string drawn from `dom`, no item twice, every element of `dom` listed (order unspecified)
pub open spec fn items_in(a: Seq<StateValue>, dom: Set<String>) -> bool { forall|j: int| 0 <= j < a.len() ==> (#[trigger] a[j]) is String && dom.contains(a[j]->String_0) }
pub open spec fn items_distinct(a: Seq<StateValue>) -> bool { forall|i: int, j: int| 0 <= i < j < a.len() ==> #[trigger] a[i] != #[trigger] a[j] }
pub open spec fn item_listed(a: Seq<StateValue>, k: String) -> bool { exists|i: int| 0 <= i < a.len() && #[trigger] a[i] == StateValue::String(k) }
pub open spec fn lists_exactly(a: Seq<StateValue>, dom: Set<String>) -> bool {
    items_in(a, dom) && items_distinct(a) && forall|k: String| #[trigger] dom.contains(k) ==> item_listed(a, k)
}
} // mod collspec
pub mod colllemmas {
use vstd::prelude::*;
pub proof fn lemma_map_same_except<V>(a: Map<String, V>, b: Map<String, V>, k: String)
    requires a.remove(k) =~= b.remove(k), a.contains_key(k) == b.contains_key(k), a.contains_key(k) ==> a[k] == b[k]
    ensures a =~= b
{
    assert forall|j: String| (#[trigger] a.contains_key(j)) == b.contains_key(j) && (a.contains_key(j) ==> a[j] == b[j]) by {
        if j != k {
            assert(a.remove(k).contains_key(j) == a.contains_key(j));
            assert(b.remove(k).contains_key(j) == b.contains_key(j));
            if a.contains_key(j) { assert(a.remove(k)[j] == a[j]); assert(b.remove(k)[j] == b[j]); }
        }
    }
    assert(a.dom() =~= b.dom());
}
}
