// ===== parser: mirror specification (Layer A reference) over Seq<char> =====
// Written as the reference token machine of the documented line syntax; the real functions are
// proved equal to it (Layer A) and the property-level lemmas (Layer B, parser_lemmas.rs) are proved
// about it.
pub mod pspec {
use vstd::prelude::*;
use crate::duckscript::types::instruction::*;
use crate::duckscript::types::error::ScriptError;
use crate::trusted::*;
use crate::{trim_spec, starts_with_spec, lines_spec};

pub enum PErr { Control, ControlLoc, EndQuotes, QuotesLoc, EmptyLabel, PreNoCommand }

pub struct Flags { pub allow_quotes: bool, pub allow_control: bool, pub stop_on_equals: bool, pub control_as_char: bool }

pub struct St { pub in_argument: bool, pub using_quotes: bool, pub in_control: bool, pub fvp: bool, pub arg: Seq<char> }

pub enum Scan { Fail(PErr), Done { index: int, st: St, found_end: bool } }

pub open spec fn scan(line: Seq<char>, i: int, st: St, f: Flags) -> Scan
    decreases line.len() - i
{
    if i >= line.len() || i < 0 { Scan::Done { index: i, st, found_end: false } }
    else {
        let c = line[i];
        if st.in_argument {
            if st.in_control {
                if st.fvp {
                    if c == '{' { scan(line, i + 1, St { arg: st.arg + "\\${"@, in_control: false, fvp: false, ..st }, f) }
                    else { Scan::Fail(PErr::Control) }
                } else if c == '\\' || c == '"' { scan(line, i + 1, St { arg: st.arg.push(c), in_control: false, ..st }, f) }
                else if c == 'n' { scan(line, i + 1, St { arg: st.arg.push('\n'), in_control: false, ..st }, f) }
                else if c == 'r' { scan(line, i + 1, St { arg: st.arg.push('\r'), in_control: false, ..st }, f) }
                else if c == 't' { scan(line, i + 1, St { arg: st.arg.push('\t'), in_control: false, ..st }, f) }
                else if c == '$' { scan(line, i + 1, St { fvp: true, ..st }, f) }
                else { Scan::Fail(PErr::Control) }
            } else if c == '\\' {
                if f.control_as_char { scan(line, i + 1, St { arg: st.arg.push(c), ..st }, f) }
                else if f.allow_control { scan(line, i + 1, St { in_control: true, fvp: false, ..st }, f) }
                else { Scan::Fail(PErr::ControlLoc) }
            } else if st.using_quotes && c == '"' {
                Scan::Done { index: i + 1, st, found_end: true }
            } else if !st.using_quotes && (c == ' ' || c == '#' || (f.stop_on_equals && c == '=')) {
                Scan::Done { index: if c == '#' { line.len() as int } else { i }, st, found_end: true }
            } else {
                scan(line, i + 1, St { arg: st.arg.push(c), ..st }, f)
            }
        } else if c == '#' {
            Scan::Done { index: line.len() as int, st, found_end: false }
        } else if c != ' ' {
            if c == '"' {
                if f.allow_quotes { scan(line, i + 1, St { in_argument: true, using_quotes: true, ..st }, f) }
                else { Scan::Fail(PErr::QuotesLoc) }
            } else if c == '\\' {
                if f.control_as_char { scan(line, i + 1, St { in_argument: true, arg: st.arg.push(c), ..st }, f) }
                else if f.allow_control { scan(line, i + 1, St { in_argument: true, in_control: true, ..st }, f) }
                else { Scan::Fail(PErr::ControlLoc) }
            } else { scan(line, i + 1, St { in_argument: true, arg: st.arg.push(c), ..st }, f) }
        } else { scan(line, i + 1, st, f) }
    }
}

pub open spec fn st0() -> St { St { in_argument: false, using_quotes: false, in_control: false, fvp: false, arg: Seq::empty() } }

pub open spec fn finish(s: Scan) -> Result<(int, Option<Seq<char>>), PErr> {
    match s {
        Scan::Fail(e) => Err(e),
        Scan::Done { index, st, found_end } =>
            if st.in_argument && !found_end && (st.in_control || st.using_quotes) {
                if st.in_control { Err(PErr::Control) } else { Err(PErr::EndQuotes) }
            } else if st.arg.len() == 0 {
                if st.using_quotes { Ok((index, Some(st.arg))) } else { Ok((index, None)) }
            } else { Ok((index, Some(st.arg))) }
    }
}

pub open spec fn pnv_spec(line: Seq<char>, start: int, f: Flags) -> Result<(int, Option<Seq<char>>), PErr> {
    if start >= line.len() { Ok((start, None)) } else { finish(scan(line, start, st0(), f)) }
}

pub open spec fn f_arg(cac: bool) -> Flags { Flags { allow_quotes: true, allow_control: !cac, stop_on_equals: false, control_as_char: cac } }
pub open spec fn f_name() -> Flags { Flags { allow_quotes: false, allow_control: false, stop_on_equals: false, control_as_char: false } }
pub open spec fn f_out() -> Flags { Flags { allow_quotes: false, allow_control: false, stop_on_equals: true, control_as_char: false } }

// ---- argument list ----
pub open spec fn args_spec(line: Seq<char>, i: int, cac: bool) -> Result<Seq<Seq<char>>, PErr>
    decreases line.len() - i
{
    match pnv_spec(line, i, f_arg(cac)) {
        Err(e) => Err(e),
        Ok((n, None)) => Ok(Seq::empty()),
        Ok((n, Some(a))) => if i < n <= line.len() {
            match args_spec(line, n, cac) { Err(e) => Err(e), Ok(rest) => Ok(seq![a] + rest) }
        } else { Ok(seq![a]) },
    }
}
pub open spec fn args_join(prefix: Seq<Seq<char>>, r: Result<Seq<Seq<char>>, PErr>) -> Result<Seq<Seq<char>>, PErr> {
    match r { Err(e) => Err(e), Ok(rest) => Ok(prefix + rest) }
}
pub open spec fn opt_args(a: Seq<Seq<char>>) -> Option<Seq<Seq<char>>> { if a.len() == 0 { None } else { Some(a) } }

// ---- label ----
pub open spec fn label_spec(line: Seq<char>, i: int) -> Result<(int, Option<Seq<char>>), PErr>
    decreases line.len() - i
{
    if i >= line.len() || i < 0 { Ok((i, None)) }
    else if line[i] == ':' {
        match pnv_spec(line, i + 1, f_name()) {
            Err(e) => Err(e),
            Ok((n, None)) => Ok((n, None)),
            Ok((n, Some(v))) => if v.len() == 0 { Err(PErr::EmptyLabel) } else { Ok((n, Some(seq![':'] + v))) },
        }
    }
    else if line[i] == ' ' { label_spec(line, i + 1) }
    else { Ok((i, None)) }
}

// ---- output variable and command ----
pub open spec fn first_non_space(line: Seq<char>, i: int) -> int
    decreases line.len() - i
{
    if i >= line.len() || i < 0 { line.len() as int } else if line[i] != ' ' { i } else { first_non_space(line, i + 1) }
}
/// (next index, output, command)
pub open spec fn oc_spec(line: Seq<char>, start: int) -> Result<(int, Option<Seq<char>>, Option<Seq<char>>), PErr> {
    match pnv_spec(line, start, f_out()) {
        Err(e) => Err(e),
        Ok((next, None)) => Ok((next, None, None)),
        Ok((next, Some(v))) => {
            let p = first_non_space(line, next);
            if p < line.len() && line[p] == '=' {
                match pnv_spec(line, p + 1, f_name()) {
                    Err(e) => Err(e),
                    Ok((n2, None)) => Ok((p + 1, Some(v), None)),
                    Ok((n2, Some(c))) => Ok((n2, Some(v), Some(c))),
                }
            } else { Ok((next, None, Some(v))) }
        }
    }
}

// ---- instruction views ----
pub enum IView {
    Empty,
    Script { label: Option<Seq<char>>, output: Option<Seq<char>>, command: Option<Seq<char>>, arguments: Option<Seq<Seq<char>>> },
    PreProcess { command: Option<Seq<char>>, arguments: Option<Seq<Seq<char>>> },
}
pub open spec fn ostr(o: Option<String>) -> Option<Seq<char>> { match o { Some(s) => Some(s@), None => None } }
pub open spec fn vstrs(v: Seq<String>) -> Seq<Seq<char>> { v.map_values(|s: String| s@) }
pub open spec fn oargs(o: Option<Vec<String>>) -> Option<Seq<Seq<char>>> { match o { Some(v) => Some(vstrs(v@)), None => None } }
pub open spec fn script_view(s: ScriptInstruction) -> IView {
    IView::Script { label: ostr(s.label), output: ostr(s.output), command: ostr(s.command), arguments: oargs(s.arguments) }
}
pub open spec fn itype_view(t: InstructionType) -> IView {
    match t {
        InstructionType::Empty => IView::Empty,
        InstructionType::Script(s) => script_view(s),
        InstructionType::PreProcess(p) => IView::PreProcess { command: ostr(p.command), arguments: oargs(p.arguments) },
    }
}
pub open spec fn iview(i: Instruction) -> (IView, InstructionMetaInfo) { (itype_view(i.instruction_type), i.meta_info) }

pub open spec fn cmdline_spec(line: Seq<char>, start: int) -> Result<IView, PErr> {
    if line.len() == 0 || start >= line.len() { Ok(IView::Empty) }
    else {
        match label_spec(line, start) {
            Err(e) => Err(e),
            Ok((i1, label)) => match oc_spec(line, i1) {
                Err(e) => Err(e),
                Ok((i2, output, command)) => match args_spec(line, i2, false) {
                    Err(e) => Err(e),
                    Ok(args) => if label is None && output is None && command is None { Ok(IView::Empty) }
                        else { Ok(IView::Script { label, output, command, arguments: opt_args(args) }) },
                },
            },
        }
    }
}

// ---- pre-process line ----
pub open spec fn pre_cmd(line: Seq<char>, i: int, cmd: Seq<char>) -> (int, Seq<char>)
    decreases line.len() - i
{
    if i >= line.len() || i < 0 { (i, cmd) }
    else if line[i] == ' ' { if cmd.len() > 0 { (i + 1, cmd) } else { pre_cmd(line, i + 1, cmd) } }
    else { pre_cmd(line, i + 1, cmd.push(line[i])) }
}
pub open spec fn pre_spec(line: Seq<char>, start: int) -> Result<IView, PErr> {
    if line.len() == 0 { Err(PErr::PreNoCommand) }
    else {
        let (idx, cmd) = pre_cmd(line, start, Seq::empty());
        if cmd.len() == 0 { Err(PErr::PreNoCommand) }
        else { match args_spec(line, idx, false) {
            Err(e) => Err(e),
            Ok(args) => Ok(IView::PreProcess { command: Some(cmd), arguments: opt_args(args) }),
        } }
    }
}

// ---- one line ----
pub open spec fn line_spec(text: Seq<char>) -> Result<IView, PErr> {
    let t = trim_spec(text);
    if t.len() == 0 || starts_with_spec(t, "#"@) { Ok(IView::Empty) }
    else if t[0] == '!' { pre_spec(t, 1) }
    else { cmdline_spec(t, 0) }
}

// ---- errors ----
pub open spec fn mk_err(k: PErr, m: InstructionMetaInfo) -> ScriptError {
    match k {
        PErr::Control => ScriptError::ControlWithoutValidValue(m),
        PErr::ControlLoc => ScriptError::InvalidControlLocation(m),
        PErr::EndQuotes => ScriptError::MissingEndQuotes(m),
        PErr::QuotesLoc => ScriptError::InvalidQuotesLocation(m),
        PErr::EmptyLabel => ScriptError::EmptyLabel(m),
        PErr::PreNoCommand => ScriptError::PreProcessNoCommandFound(m),
    }
}
pub open spec fn res_matches(r: Result<(usize, Option<String>), ScriptError>, s: Result<(int, Option<Seq<char>>), PErr>, m: InstructionMetaInfo) -> bool {
    match (r, s) {
        (Ok((i, o)), Ok((si, so))) => i as int == si && ostr(o) == so,
        (Err(e), Err(se)) => e == mk_err(se, m),
        _ => false,
    }
}
pub open spec fn args_matches(r: Result<Option<Vec<String>>, ScriptError>, s: Result<Seq<Seq<char>>, PErr>, m: InstructionMetaInfo) -> bool {
    match (r, s) {
        (Ok(o), Ok(a)) => oargs(o) == opt_args(a),
        (Err(e), Err(se)) => e == mk_err(se, m),
        _ => false,
    }
}
pub open spec fn instr_matches(r: Result<Instruction, ScriptError>, s: Result<IView, PErr>, m: InstructionMetaInfo) -> bool {
    match (r, s) {
        (Ok(i), Ok(v)) => iview(i) == (v, m),
        (Err(e), Err(se)) => e == mk_err(se, m),
        _ => false,
    }
}

// ---- whole text ----
pub open spec fn line_meta(meta: InstructionMetaInfo, k: int) -> InstructionMetaInfo { InstructionMetaInfo { line: Some((k + 1) as usize), source: meta.source } }
/// abstract callee: what the pre-processor adds after a `!` instruction (decided in unit preproc)
pub uninterp spec fn pre_run_spec(iv: (IView, InstructionMetaInfo)) -> Result<Seq<(IView, InstructionMetaInfo)>, ScriptError>;
pub open spec fn iviews(v: Seq<Instruction>) -> Seq<(IView, InstructionMetaInfo)> { v.map_values(|i: Instruction| iview(i)) }

pub open spec fn plines_spec(ls: Seq<Seq<char>>, k: int, meta: InstructionMetaInfo) -> Result<Seq<(IView, InstructionMetaInfo)>, ScriptError>
    decreases ls.len() - k
{
    if k >= ls.len() || k < 0 { Ok(Seq::empty()) }
    else {
        let m = line_meta(meta, k);
        match line_spec(ls[k]) {
            Err(e) => Err(mk_err(e, m)),
            Ok(v) => {
                let added = if v is PreProcess { pre_run_spec((v, m)) } else { Ok(Seq::empty()) };
                match added {
                    Err(e) => Err(e),
                    Ok(extra) => match plines_spec(ls, k + 1, meta) {
                        Err(e) => Err(e),
                        Ok(rest) => Ok(seq![(v, m)] + extra + rest),
                    },
                }
            }
        }
    }
}
pub open spec fn plines_join(prefix: Seq<(IView, InstructionMetaInfo)>, r: Result<Seq<(IView, InstructionMetaInfo)>, ScriptError>) -> Result<Seq<(IView, InstructionMetaInfo)>, ScriptError> {
    match r { Err(e) => Err(e), Ok(rest) => Ok(prefix + rest) }
}
pub open spec fn text_matches(r: Result<Vec<Instruction>, ScriptError>, s: Result<Seq<(IView, InstructionMetaInfo)>, ScriptError>) -> bool {
    match (r, s) {
        (Ok(v), Ok(sv)) => iviews(v@) == sv,
        (Err(e), Err(se)) => e == se,
        _ => false,
    }
}
} // mod pspec
