// ===== parser Layer B, line level, malformed lines (C08): WHERE on the line the malformed part sits does not matter =====
// The token-level lemmas (parser_layerb_line.rs) say a malformed token is rejected with its kind; these theorems
// compose them over a whole instruction line: a malformed output variable / command name / argument fails the line
// with the matching kind whatever well-formed label, output variable, command and arguments precede it.

/// a malformed name starts at i: it begins with a double quote (j == i), or line[j] is the first backslash in it
pub open spec fn bad_name_at(line: Seq<char>, i: int, j: int, f: Flags) -> bool {
    0 <= i <= j < line.len()
    && ((j == i && line[j] == '"') || (line[j] == '\\' && (i < j ==> line[i] != '"') && forall|k: int| i <= k < j ==> plain(#[trigger] line[k], f)))
}
pub open spec fn bad_name_kind(line: Seq<char>, i: int, j: int) -> PErr { if j == i && line[j] == '"' { PErr::QuotesLoc } else { PErr::ControlLoc } }
pub proof fn lemma_err_name(line: Seq<char>, s: int, i: int, j: int, f: Flags)
    requires spaces_at(line, s, i), bad_name_at(line, i, j, f), !f.allow_quotes, !f.allow_control, !f.control_as_char,
    ensures pnv_spec(line, s, f) == Err::<(int, Option<Seq<char>>), PErr>(bad_name_kind(line, i, j))
{
    if j == i && line[j] == '"' { lemma_err_quote_in_name(line, s, i, f); } else { lemma_err_backslash_in_name(line, s, i, j, f); }
}
/// the optional label in front, as in thm_line
pub open spec fn label_ok(line: Seq<char>, lab: Option<(int, int)>) -> bool {
    lab matches Some((li, lj)) ==> spaces_at(line, 0, li) && li < line.len() && line[li] == ':' && token_at(line, li + 1, lj, f_name()) && lj < line.len() && line[lj] == ' '
}
pub proof fn lemma_label_part(line: Seq<char>, lab: Option<(int, int)>, first: int)
    requires label_ok(line, lab), spaces_at(line, lab_end(lab), first), first < line.len(), line[first] != ' ', lab is None ==> line[first] != ':',
    ensures label_spec(line, 0) == Ok::<(int, Option<Seq<char>>), PErr>((if lab is Some { lab_end(lab) } else { first },
        match lab { Some((li, lj)) => Some(seq![':'] + line.subrange(li + 1, lj)), None => None }))
{
    match lab {
        Some((li, lj)) => { lemma_label_present(line, 0, li, lj); }
        None => { lemma_label_absent(line, 0, first); }
    }
}

/// C08: the first word of an instruction (its output variable, or its command) begins with a double quote or
/// contains a backslash: the line fails with that kind, with or without a label in front
pub proof fn thm_err_first_word(line: Seq<char>, lab: Option<(int, int)>, i: int, j: int)
    requires line.len() > 0, label_ok(line, lab), spaces_at(line, lab_end(lab), i), bad_name_at(line, i, j, f_out()), lab is None ==> line[i] != ':',
    ensures cmdline_spec(line, 0) == Err::<IView, PErr>(bad_name_kind(line, i, j))
{
    if i < j { assert(plain(line[i], f_out())); }
    lemma_label_part(line, lab, i);
    match lab {
        Some((li, lj)) => { lemma_err_name(line, lj, i, j, f_out()); }
        None => { lemma_err_name(line, i, i, j, f_out()); }
    }
}
/// C08: `[label] out = cmd ..` where the command name begins with a double quote or contains a backslash
pub proof fn thm_err_command(line: Seq<char>, lab: Option<(int, int)>, oi: int, oj: int, op: int, i: int, j: int)
    requires line.len() > 0, label_ok(line, lab), spaces_at(line, lab_end(lab), oi), token_at(line, oi, oj, f_out()), lab is None ==> line[oi] != ':',
        spaces_at(line, oj, op), op < line.len(), line[op] == '=', spaces_at(line, op + 1, i), bad_name_at(line, i, j, f_name()),
    ensures cmdline_spec(line, 0) == Err::<IView, PErr>(bad_name_kind(line, i, j))
{
    assert(plain(line[oi], f_out()));
    lemma_label_part(line, lab, oi);
    let s = if lab is Some { lab_end(lab) } else { oi };
    assert(spaces_at(line, s, oi));
    if oj < op { assert(line[oj] == ' '); }
    lemma_unquoted_token(line, s, oi, oj, f_out());
    lemma_first_non_space(line, oj, op);
    lemma_err_name(line, op + 1, i, j, f_name());
}

/// a malformed written argument starts at i: an undocumented escape at j (in an unquoted argument), or (j == i) an
/// opening double quote that is never closed
pub open spec fn bad_escape_at(line: Seq<char>, i: int, j: int) -> bool {
    0 <= i <= j && j + 1 < line.len() && line[j] == '\\'
    && line[j + 1] != '\\' && line[j + 1] != '"' && line[j + 1] != 'n' && line[j + 1] != 'r' && line[j + 1] != 't' && line[j + 1] != '$'
    && (i < j ==> line[i] != '"') && forall|k: int| i <= k < j ==> plain(#[trigger] line[k], f_arg(false))
}
pub open spec fn unterminated_at(line: Seq<char>, i: int) -> bool {
    0 <= i < line.len() && line[i] == '"' && forall|k: int| i < k < line.len() ==> (#[trigger] line[k]) != '"' && line[k] != '\\'
}
pub open spec fn bad_arg_at(line: Seq<char>, i: int, j: int) -> bool { bad_escape_at(line, i, j) || (j == i && unterminated_at(line, i)) }
pub open spec fn bad_arg_kind(line: Seq<char>, i: int, j: int) -> PErr { if bad_escape_at(line, i, j) { PErr::Control } else { PErr::EndQuotes } }
pub proof fn lemma_err_arg(line: Seq<char>, s: int, i: int, j: int)
    requires spaces_at(line, s, i), bad_arg_at(line, i, j),
    ensures pnv_spec(line, s, f_arg(false)) == Err::<(int, Option<Seq<char>>), PErr>(bad_arg_kind(line, i, j))
{
    if bad_escape_at(line, i, j) { lemma_err_bad_escape(line, s, i, j); } else { lemma_err_unterminated(line, s, i); }
}
/// well-formed arguments a written from s on, then at least one space, then a malformed argument at i: the argument
/// list fails with that argument's kind (however many well-formed arguments precede it)
pub proof fn lemma_args_err(line: Seq<char>, s: int, a: Seq<ArgR>, i: int, j: int)
    requires
        0 <= s, s + args_text(a).len() < i < line.len(),
        line.subrange(s, s + args_text(a).len()) == args_text(a),
        forall|k: int| 0 <= k < a.len() ==> arg_ok(#[trigger] a[k]),
        spaces_at(line, s + args_text(a).len(), i), bad_arg_at(line, i, j),
    ensures args_spec(line, s, false) == Err::<Seq<Seq<char>>, PErr>(bad_arg_kind(line, i, j)),
    decreases a.len()
{
    if a.len() == 0 {
        assert(args_text(a).len() == 0);
        lemma_err_arg(line, s, i, j);
    } else {
        let a0 = a[0];
        let rest_a = a.drop_first();
        let t0 = arg_text(a0);
        let at = args_text(a);
        assert(at =~= t0 + args_text(rest_a));
        let e = s + t0.len();
        let seg = line.subrange(s, s + at.len());
        assert forall|k: int| 0 <= k < t0.len() implies line[s + k] == t0[k] by { assert(seg[k] == line[s + k]); assert(at[k] == t0[k]); }
        assert forall|k: int| s <= k < s + a0.sp implies line[k] == ' ' by { assert(t0[k - s] == spaces(a0.sp)[k - s]); }
        let rt = args_text(rest_a);
        assert forall|k: int| 0 <= k < rt.len() implies line[e + k] == rt[k] by { assert(seg[t0.len() + k] == line[s + (t0.len() + k)]); assert(at[t0.len() + k] == rt[k]); }
        assert(line.subrange(e, e + rt.len()) =~= rt);
        // what follows the first argument is a space: the next argument's separator, or the spaces before the bad one
        if rest_a.len() > 0 {
            assert(arg_ok(rest_a[0]));
            assert(rt =~= arg_text(rest_a[0]) + args_text(rest_a.drop_first()));
            assert(arg_text(rest_a[0])[0] == spaces(rest_a[0].sp)[0]);
            assert(line[e] == rt[0]);
        } else {
            assert(rt.len() == 0);
            assert(line[e] == ' ');
        }
        let p = s + a0.sp;
        if a0.quoted {
            assert(t0 =~= spaces(a0.sp) + (seq!['"'] + a0.body + seq!['"']));
            assert(line[p] == t0[a0.sp as int]);
            assert forall|k: int| 0 <= k < a0.body.len() implies line[p + 1 + k] == a0.body[k] by { assert(t0[(a0.sp + 1 + k) as int] == a0.body[k]); }
            assert(line.subrange(p + 1, p + 1 + a0.body.len()) =~= a0.body);
            assert(line[p + 1 + a0.body.len()] == t0[(a0.sp + 1 + a0.body.len()) as int]);
            lemma_quoted_token(line, s, p, a0.body, a0.val);
            assert(e == p + a0.body.len() + 2);
        } else {
            assert(t0 =~= spaces(a0.sp) + a0.val);
            assert forall|k: int| p <= k < e implies plain(#[trigger] line[k], f_arg(false)) by {
                assert(line[k] == t0[k - s]); assert(t0[k - s] == a0.val[k - p]); assert(arg_char(a0.val[k - p]));
            }
            assert(t0[a0.sp as int] == a0.val[0]);
            assert(line[p] == t0[p - s]);
            lemma_unquoted_token(line, s, p, e, f_arg(false));
            assert forall|k: int| 0 <= k < a0.val.len() implies line[p + k] == a0.val[k] by { assert(line[p + k] == t0[p + k - s]); assert(t0[(a0.sp + k) as int] == a0.val[k]); }
            assert(line.subrange(p, e) =~= a0.val);
        }
        assert(pnv_spec(line, s, f_arg(false)) == Ok::<(int, Option<Seq<char>>), PErr>((e, Some(a0.val))));
        lemma_args_err(line, e, rest_a, i, j);
    }
}
/// C08: `[label] [out =] cmd a1 .. ak BAD ..` - an undocumented escape or an unterminated quoted argument after any
/// well-formed label, output variable, command and arguments fails the line with the matching kind
pub proof fn thm_err_argument(line: Seq<char>, lab: Option<(int, int)>, out: Option<(int, int, int)>, cs: int, ce: int, a: Seq<ArgR>, i: int, j: int)
    requires
        line.len() > 0, label_ok(line, lab),
        out matches Some((oi, oj, op)) ==> token_at(line, oi, oj, f_out()) && spaces_at(line, oj, op) && op < line.len() && line[op] == '=' && spaces_at(line, op + 1, cs)
            && token_at(line, cs, ce, f_name()) && spaces_at(line, lab_end(lab), oi) && (lab is None ==> line[oi] != ':'),
        out is None ==> token_at(line, cs, ce, f_out()) && spaces_at(line, lab_end(lab), cs) && (lab is None ==> line[cs] != ':')
            // the first thing written after a command without output variable must not start with '='
            && (a.len() > 0 && !a[0].quoted ==> a[0].val[0] != '=') && (a.len() == 0 ==> line[i] != '='),
        ce + args_text(a).len() < i < line.len(),
        line.subrange(ce, ce + args_text(a).len()) == args_text(a),
        forall|k: int| 0 <= k < a.len() ==> arg_ok(#[trigger] a[k]),
        spaces_at(line, ce + args_text(a).len(), i), bad_arg_at(line, i, j),
    ensures cmdline_spec(line, 0) == Err::<IView, PErr>(bad_arg_kind(line, i, j))
{
    let first = match out { Some((oi, oj, op)) => oi, None => cs };
    assert(plain(line[first], f_out()));
    lemma_label_part(line, lab, first);
    let s = if lab is Some { lab_end(lab) } else { first };
    // the character just after the command is a space
    let at = args_text(a);
    if a.len() > 0 {
        assert(arg_ok(a[0]));
        assert(at =~= arg_text(a[0]) + args_text(a.drop_first()));
        assert(arg_text(a[0])[0] == spaces(a[0].sp)[0]);
        assert(line.subrange(ce, ce + at.len())[0] == line[ce]);
    }
    assert(line[ce] == ' ');
    match out {
        Some((oi, oj, op)) => { lemma_oc_both(line, s, oi, oj, op, cs, ce); }
        None => {
            // the first non-space character after the command: the first argument's first character, or the bad one's
            let p = if a.len() > 0 { ce + a[0].sp } else { i };
            if a.len() > 0 {
                let t0 = arg_text(a[0]);
                assert forall|k: int| 0 <= k < t0.len() implies line[ce + k] == t0[k] by { assert(line.subrange(ce, ce + at.len())[k] == line[ce + k]); assert(at[k] == t0[k]); }
                assert forall|k: int| ce <= k < p implies line[k] == ' ' by { assert(t0[k - ce] == spaces(a[0].sp)[k - ce]); }
                if a[0].quoted { assert(t0 =~= spaces(a[0].sp) + (seq!['"'] + a[0].body + seq!['"'])); assert(line[p] == t0[a[0].sp as int]); }
                else { assert(t0 =~= spaces(a[0].sp) + a[0].val); assert(line[p] == t0[a[0].sp as int]); assert(arg_char(a[0].val[0])); }
            }
            assert(spaces_at(line, ce, p));
            assert(line[p] != ' ' && line[p] != '=');
            lemma_oc_cmd_only(line, s, cs, ce, p);
        }
    }
    lemma_args_err(line, ce, a, i, j);
}

// ---- the hypotheses are satisfiable: one concrete line per theorem (non-vacuity witnesses) ----
pub proof fn ex_err_first_word() ensures cmdline_spec(seq!['"', 'x'], 0) == Err::<IView, PErr>(PErr::QuotesLoc)
{
    let line = seq!['"', 'x'];
    assert(spaces_at(line, 0, 0));
    thm_err_first_word(line, None, 0, 0);
}
pub proof fn ex_err_command() ensures cmdline_spec(seq!['o', '=', 'c', '\\'], 0) == Err::<IView, PErr>(PErr::ControlLoc)
{
    let line = seq!['o', '=', 'c', '\\'];
    assert(plain(line[0], f_out()));
    assert(token_at(line, 0, 1, f_out()));
    assert(plain(line[2], f_name()));
    assert(bad_name_at(line, 2, 3, f_name()));
    thm_err_command(line, None, 0, 1, 1, 2, 3);
}
pub proof fn ex_err_argument() ensures cmdline_spec(seq!['c', ' ', '"'], 0) == Err::<IView, PErr>(PErr::EndQuotes)
{
    let line = seq!['c', ' ', '"'];
    let a = Seq::<ArgR>::empty();
    assert(args_text(a).len() == 0);
    assert(line.subrange(1, 1) =~= args_text(a));
    assert(plain(line[0], f_out()));
    assert(token_at(line, 0, 1, f_out()));
    assert(unterminated_at(line, 2));
    assert(!bad_escape_at(line, 2, 2));
    thm_err_argument(line, None, None, 0, 1, a, 2, 2);
}
