// ===== structured blocks, Layer B (code independent): on a well-nested program the reference scan fc returns the
// block's own end - the structurally matching closer - and exactly its own middle keywords (C04) =====
pub mod blayerb {
use vstd::prelude::*;
use crate::duckscript::types::instruction::*;
use crate::duckscriptsdk::bspec::*;

/// what stands between an opener and its closer, seen from the block being scanned:
///   Plain          an instruction that is no block keyword (or has no command)
///   Mid            one of this block's own middle keywords (elseif / else); only directly in the body
///   Foreign(xs)    a block of ANOTHER kind: opener, contents, closer
///   Same(xs)       a nested block of the SAME kind: opener, its own body, closer
pub enum Blk { Plain, Mid, Foreign(Seq<Blk>), Same(Seq<Blk>) }

pub open spec fn len1(b: Blk) -> int decreases b { match b { Blk::Plain => 1, Blk::Mid => 1, Blk::Foreign(xs) => 2 + lens(xs), Blk::Same(xs) => 2 + lens(xs) } }
pub open spec fn lens(xs: Seq<Blk>) -> int decreases xs { if xs.len() == 0 { 0 } else { lens(xs.drop_last()) + len1(xs.last()) } }
pub proof fn lemma_len_pos(b: Blk) ensures len1(b) >= 1 decreases b, 0int { match b { Blk::Foreign(xs) => lemma_lens_nonneg(xs), Blk::Same(xs) => lemma_lens_nonneg(xs), _ => {} } }
pub proof fn lemma_lens_nonneg(xs: Seq<Blk>) ensures lens(xs) >= 0 decreases xs, 1int { if xs.len() > 0 { lemma_lens_nonneg(xs.drop_last()); lemma_len_pos(xs.last()); } }

/// the keyword classes do not overlap in the ways that would make a program ambiguous
pub open spec fn names_ok(n: Names) -> bool {
    n.recursive
    && (forall|c: String| n.start.contains(c) ==> !n.start_blocks.contains(c) && !n.middle.contains(c) && !n.end_blocks.contains(c) && !n.end.contains(c))
    && (forall|c: String| n.middle.contains(c) ==> !n.start_blocks.contains(c))
    && (forall|c: String| n.end_blocks.contains(c) ==> !n.start_blocks.contains(c) && !n.middle.contains(c))
    && (forall|c: String| n.end.contains(c) ==> !n.start_blocks.contains(c) && !n.middle.contains(c))
}
pub open spec fn is_plain(instrs: Seq<Instruction>, n: Names, a: int) -> bool {
    match command_at(instrs, a) { None => true, Some(c) => !n.start_blocks.contains(c) && !n.middle.contains(c) && !n.end_blocks.contains(c) && !n.end.contains(c) && !n.start.contains(c) }
}
pub open spec fn is_kw(instrs: Seq<Instruction>, a: int, names: Seq<String>) -> bool { command_at(instrs, a) matches Some(c) && names.contains(c) }
/// the lines [a, a+len1(b)) are written as b; `foreign` = we are inside a block of another kind
pub open spec fn at_blk(instrs: Seq<Instruction>, n: Names, a: int, b: Blk, foreign: bool) -> bool decreases b, 0int {
    0 <= a && a + len1(b) <= instrs.len() && match b {
        Blk::Plain => is_plain(instrs, n, a),
        Blk::Mid => !foreign && is_kw(instrs, a, n.middle),
        Blk::Foreign(xs) => is_kw(instrs, a, n.start_blocks) && at_seq(instrs, n, a + 1, xs, true) && is_kw(instrs, a + 1 + lens(xs), n.end_blocks),
        Blk::Same(xs) => is_kw(instrs, a, n.start) && at_seq(instrs, n, a + 1, xs, false) && is_kw(instrs, a + 1 + lens(xs), n.end),
    }
}
pub open spec fn at_seq(instrs: Seq<Instruction>, n: Names, a: int, xs: Seq<Blk>, foreign: bool) -> bool decreases xs, 1int {
    if xs.len() == 0 { 0 <= a <= instrs.len() } else { at_seq(instrs, n, a, xs.drop_last(), foreign) && at_blk(instrs, n, a + lens(xs.drop_last()), xs.last(), foreign) }
}
/// the lines of this block's own middle keywords
pub open spec fn mids(xs: Seq<Blk>, a: int) -> Seq<usize> decreases xs {
    if xs.len() == 0 { Seq::empty() }
    else { let m = mids(xs.drop_last(), a); if xs.last() is Mid { m.push((a + lens(xs.drop_last())) as usize) } else { m } }
}

// ---- scanning does not look at skip_to once it is behind ----
pub proof fn lemma_skip_insens(instrs: Seq<Instruction>, n: Names, line: int, end_index: int, s1: int, s2: int, delta: int, middle: Seq<usize>)
    requires s1 <= line, s2 <= line
    ensures fc(instrs, n, line, end_index, s1, delta, middle) == fc(instrs, n, line, end_index, s2, delta, middle)
    decreases end_index - line
{
    if line >= end_index || line < 0 || end_index > instrs.len() { }
    else {
        match command_at(instrs, line) {
            None => { lemma_skip_insens(instrs, n, line + 1, end_index, s1, s2, delta, middle); }
            Some(c) => {
                if n.start_blocks.contains(c) { lemma_skip_insens(instrs, n, line + 1, end_index, s1, s2, delta + 1, middle); }
                else if n.middle.contains(c) { lemma_skip_insens(instrs, n, line + 1, end_index, s1, s2, delta, middle.push(line as usize)); }
                else if n.end_blocks.contains(c) && delta > 0 { lemma_skip_insens(instrs, n, line + 1, end_index, s1, s2, delta - 1, middle); }
                else if n.end.contains(c) { }
                else if n.start.contains(c) { }
                else { lemma_skip_insens(instrs, n, line + 1, end_index, s1, s2, delta, middle); }
            }
        }
    }
}
pub proof fn lemma_skip_to(instrs: Seq<Instruction>, n: Names, line: int, end_index: int, skip_to: int, delta: int, middle: Seq<usize>)
    requires 0 <= line <= skip_to < end_index <= instrs.len()
    ensures fc(instrs, n, line, end_index, skip_to, delta, middle) == fc(instrs, n, skip_to, end_index, skip_to, delta, middle)
    decreases skip_to - line
{
    if line < skip_to { lemma_skip_to(instrs, n, line + 1, end_index, skip_to, delta, middle); }
}

// ---- one block / a sequence of blocks at foreign depth delta (delta > 0 <==> inside a block of another kind) ----
pub proof fn lemma_blk(instrs: Seq<Instruction>, n: Names, a: int, b: Blk, end_index: int, delta: int, middle: Seq<usize>)
    requires names_ok(n), delta >= 0, at_blk(instrs, n, a, b, delta > 0), a + len1(b) < end_index <= instrs.len(),
    ensures fc(instrs, n, a, end_index, 0, delta, middle)
        == fc(instrs, n, a + len1(b), end_index, 0, delta, if b is Mid { middle.push(a as usize) } else { middle })
    decreases b, 2int
{
    match b {
        Blk::Plain => {}
        Blk::Mid => {}
        Blk::Foreign(xs) => {
            lemma_lens_nonneg(xs);
            lemma_seq(instrs, n, a + 1, xs, end_index, delta + 1, middle);
            lemma_no_mids_in_foreign(xs, a + 1);
        }
        Blk::Same(xs) => {
            lemma_lens_nonneg(xs);
            let e = a + 1 + lens(xs);
            // the nested block of the same kind is scanned on its own and skipped as a whole
            thm_fc(instrs, n, a + 1, xs, end_index, Seq::empty());
            lemma_skip_insens(instrs, n, a + 1, end_index, a + 1, 0, 0, Seq::empty());
            assert(fc(instrs, n, a + 1, end_index, a + 1, 0, Seq::empty()) matches Ok((_, l)) && l == e);
            if e + 1 < end_index {
                lemma_skip_to(instrs, n, a + 1, end_index, e + 1, delta, middle);
                lemma_skip_insens(instrs, n, e + 1, end_index, e + 1, 0, delta, middle);
            }
        }
    }
}
pub proof fn lemma_no_mids_in_foreign(xs: Seq<Blk>, a: int)
    ensures true
{ }
pub proof fn lemma_seq(instrs: Seq<Instruction>, n: Names, a: int, xs: Seq<Blk>, end_index: int, delta: int, middle: Seq<usize>)
    requires names_ok(n), delta >= 0, at_seq(instrs, n, a, xs, delta > 0), a + lens(xs) < end_index <= instrs.len(), 0 <= a,
    ensures fc(instrs, n, a, end_index, 0, delta, middle) == fc(instrs, n, a + lens(xs), end_index, 0, delta, if delta == 0 { middle + mids(xs, a) } else { middle }),
        delta > 0 ==> mids(xs, a).len() == 0,
    decreases xs, 3int
{
    if xs.len() == 0 { assert(middle + mids(xs, a) =~= middle); }
    else {
        let init = xs.drop_last();
        lemma_lens_nonneg(init); lemma_len_pos(xs.last());
        lemma_seq(instrs, n, a, init, end_index, delta, middle);
        let m1 = if delta == 0 { middle + mids(init, a) } else { middle };
        lemma_blk(instrs, n, a + lens(init), xs.last(), end_index, delta, m1);
        assert(at_blk(instrs, n, a + lens(init), xs.last(), delta > 0));
        if delta == 0 {
            if xs.last() is Mid { assert((middle + mids(init, a)).push((a + lens(init)) as usize) =~= middle + mids(xs, a)); }
            else { assert(mids(xs, a) == mids(init, a)); }
        } else {
            assert(!(xs.last() is Mid));
            assert(mids(xs, a) == mids(init, a));
        }
        assert(a + lens(init) + len1(xs.last()) == a + lens(xs));
    }
}
/// C04: for a well-nested body followed by the block's own end keyword, the scan returns that line and exactly the
/// lines of the block's own middle keywords - whatever is nested inside, at any depth, under any spelling in the lists
pub proof fn thm_fc(instrs: Seq<Instruction>, n: Names, a: int, xs: Seq<Blk>, end_index: int, middle: Seq<usize>)
    requires names_ok(n), 0 <= a, at_seq(instrs, n, a, xs, false), is_kw(instrs, a + lens(xs), n.end), a + lens(xs) < end_index <= instrs.len(),
    ensures fc(instrs, n, a, end_index, 0, 0, middle) == Ok::<(Seq<usize>, int), ()>((middle + mids(xs, a), a + lens(xs))),
    decreases xs, 4int
{
    lemma_lens_nonneg(xs);
    lemma_seq(instrs, n, a, xs, end_index, 0, middle);
}
} // mod blayerb
