    // ---- stubs: contracts proved in unit `state` (same text) ----
    #[verifier::external_body]
    pub(crate) fn get_handles_sub_state(state: &mut HashMap<String, StateValue>) -> (r: &mut HashMap<String, StateValue>)
        ensures r@ == handles(old(state)@),
            final(state)@ =~= old(state)@.insert(skey("handles"@), StateValue::SubState(*final(r))),
    { unimplemented!() }
    #[verifier::external_body]
    pub(crate) fn get_optional_as_string(state_value_option: Option<StateValue>) -> (r: Result<Option<String>, String>)
        ensures match state_value_option {
            None => r == Ok::<Option<String>, String>(None),
            Some(v) => match as_string_spec(v) { Some(t) => (r matches Ok(Some(s)) && s@ == t), None => r is Err },
        },
    { unimplemented!() }
    #[verifier::external_body]
    pub(crate) fn remove_handle(state: &mut HashMap<String, StateValue>, key: String) -> (r: Option<StateValue>)
        ensures
            r == (if handles(old(state)@).contains_key(key) { Some(handles(old(state)@)[key]) } else { None::<StateValue> }),
            handles(final(state)@) =~= handles(old(state)@).remove(key),
            is_sub(final(state)@, skey("handles"@)),
            final(state)@.remove(skey("handles"@)) =~= old(state)@.remove(skey("handles"@)),
    { unimplemented!() }
    #[verifier::external_body]
    pub(crate) fn remove_handle_recursive(state: &mut HashMap<String, StateValue>, key: String) -> (r: bool)
        ensures
            r == handles(old(state)@).contains_key(key),
            submap(handles(final(state)@), handles(old(state)@)),
            !handles(final(state)@).contains_key(key),
            closed_release(handles(old(state)@), handles(final(state)@)),
            is_sub(final(state)@, skey("handles"@)),
            final(state)@.remove(skey("handles"@)) =~= old(state)@.remove(skey("handles"@)),
    { unimplemented!() }
    /// ASSUMED (not proved): the random 20-character key is not a live handle (collision improbable, not impossible)
    #[verifier::external_body]
    pub(crate) fn put_handle(state: &mut HashMap<String, StateValue>, value: StateValue) -> (r: String)
        ensures
            !handles(old(state)@).contains_key(r),
            handles(final(state)@) =~= handles(old(state)@).insert(r, value),
            is_sub(final(state)@, skey("handles"@)),
            final(state)@.remove(skey("handles"@)) =~= old(state)@.remove(skey("handles"@)),
    { unimplemented!() }
    #[verifier::external_body]
    pub(crate) fn mutate_map<F>(key: String, state: &mut HashMap<String, StateValue>, mut handler: F) -> (r: Result<Option<String>, String>)
    where F: FnMut(&mut HashMap<String, StateValue>) -> Result<Option<String>, String>,
        requires forall|l: &mut HashMap<String, StateValue>| handler.requires((l,)),
        ensures
            !old(state)@.contains_key(key) ==> r is Err && final(state)@ =~= old(state)@,
            old(state)@.contains_key(key) && !(old(state)@[key] is SubState) ==> r is Err && final(state)@ =~= old(state)@,
            is_sub(old(state)@, key) ==> exists|l: &mut HashMap<String, StateValue>| *l == old(state)@[key]->SubState_0 && handler.ensures((l,), r)
                && final(state)@.contains_key(key) && final(state)@[key] is SubState && final(state)@[key]->SubState_0 == *final(l) && final(state)@.remove(key) =~= old(state)@.remove(key),
    { unimplemented!() }
    #[verifier::external_body]
    pub(crate) fn mutate_list<F>(key: String, state: &mut HashMap<String, StateValue>, mut handler: F) -> (r: Result<Option<String>, String>)
    where F: FnMut(&mut Vec<StateValue>) -> Result<Option<String>, String>,
        requires forall|l: &mut Vec<StateValue>| handler.requires((l,)),
        ensures
            !old(state)@.contains_key(key) ==> r is Err && final(state)@ =~= old(state)@,
            old(state)@.contains_key(key) && !(old(state)@[key] is List) ==> r is Err && final(state)@ =~= old(state)@,
            is_list(old(state)@, key) ==> exists|l: &mut Vec<StateValue>| *l == old(state)@[key]->List_0 && handler.ensures((l,), r)
                && final(state)@.contains_key(key) && final(state)@[key] is List && final(state)@[key]->List_0 == *final(l) && final(state)@.remove(key) =~= old(state)@.remove(key),
    { unimplemented!() }
    #[verifier::external_body]
    pub(crate) fn mutate_set<F>(key: String, state: &mut HashMap<String, StateValue>, mut handler: F) -> (r: Result<Option<String>, String>)
    where F: FnMut(&mut HashSet<String>) -> Result<Option<String>, String>,
        requires forall|l: &mut HashSet<String>| handler.requires((l,)),
        ensures
            !old(state)@.contains_key(key) ==> r is Err && final(state)@ =~= old(state)@,
            old(state)@.contains_key(key) && !(old(state)@[key] is Set) ==> r is Err && final(state)@ =~= old(state)@,
            old(state)@.contains_key(key) && old(state)@[key] is Set ==> exists|l: &mut HashSet<String>| *l == old(state)@[key]->Set_0 && handler.ensures((l,), r)
                && final(state)@.contains_key(key) && final(state)@[key] is Set && final(state)@[key]->Set_0 == *final(l) && final(state)@.remove(key) =~= old(state)@.remove(key),
    { unimplemented!() }
    // @proved-in state get_as_string
    #[verifier::external_body]
    pub(crate) fn get_as_string(state_value: &StateValue) -> (r: Result<String, String>)
        ensures r is Ok <==> as_string_spec(*state_value) is Some,
            r is Ok ==> Some(r->Ok_0@) == as_string_spec(*state_value),
    { unimplemented!() }
