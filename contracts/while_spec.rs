// ===== while: block descriptions and the stack of running loops (C04 transition contracts) =====
pub mod whspec {
use vstd::prelude::*;
use crate::duckscript::types::runtime::StateValue;
use crate::duckscriptsdk::sspec::*;
use crate::duckscriptsdk::fspec::{has_unum, has_str, ctx_key, ctx_name, lemma_skey_inj};
use crate::duckscriptsdk::ifspec::end_key;
use crate::trusted::*;
broadcast use crate::trusted::strings;

pub open spec fn wh_key() -> String { skey(concat_spec("duckscriptsdk::command"@, "while"@)) }
pub open spec fn whst(state: Map<String, StateValue>) -> Map<String, StateValue> { sub_of(state, wh_key()) }
/// the stack of running while loops, oldest first
pub open spec fn wh_stack(state: Map<String, StateValue>) -> Seq<StateValue> { list_of(whst(state), skey("call_stack"@)) }
pub open spec fn wh_cache(state: Map<String, StateValue>) -> Map<String, StateValue> { sub_of(whst(state), skey("meta_info"@)) }
/// a loop: the line of the `while`, the line of its end
pub struct WMV { pub start: usize, pub end: usize }
pub struct WCV { pub meta: WMV, pub ctx: Seq<char> }
pub open spec fn wmeta_view(m: Map<String, StateValue>) -> Option<WMV> {
    if has_unum(m, "start"@) && has_unum(m, "end"@) { Some(WMV { start: m[skey("start"@)]->UnsignedNumber_0, end: m[skey("end"@)]->UnsignedNumber_0 }) } else { None }
}
pub open spec fn wci_view(m: Map<String, StateValue>) -> Option<WCV> {
    if m.contains_key(skey("meta_info"@)) && m[skey("meta_info"@)] is SubState && wmeta_view(m[skey("meta_info"@)]->SubState_0@) is Some && has_str(m, "line_context_name"@) {
        Some(WCV { meta: wmeta_view(m[skey("meta_info"@)]->SubState_0@)->0, ctx: m[skey("line_context_name"@)]->String_0@ })
    } else { None }
}
/// popping for the end at `line`: entries that are no sub-states and loops ending elsewhere (or in another
/// context) are discarded; a sub-state that is no loop entry ends the search with nothing
pub open spec fn wpop_spec(st: Seq<StateValue>, line: usize, ctx: Seq<char>) -> (Option<WCV>, Seq<StateValue>)
    decreases st.len()
{
    if st.len() == 0 { (None, st) }
    else {
        let top = st.last();
        let rest = st.drop_last();
        if top is SubState {
            match wci_view(top->SubState_0@) {
                Some(c) => if c.meta.end == line && c.ctx == ctx { (Some(c), rest) } else { wpop_spec(rest, line, ctx) },
                None => (None, rest),
            }
        } else { wpop_spec(rest, line, ctx) }
    }
}
pub open spec fn only_wh_stack_changed(s0: Map<String, StateValue>, s1: Map<String, StateValue>) -> bool {
    &&& s1.remove(wh_key()).remove(ctx_key()) =~= s0.remove(wh_key()).remove(ctx_key())
    &&& ctx_name(s1) == ctx_name(s0)
    &&& is_sub(s1, wh_key())
    &&& whst(s1).remove(skey("call_stack"@)) =~= whst(s0).remove(skey("call_stack"@))
    &&& is_list(whst(s1), skey("call_stack"@))
}
pub proof fn lemma_wh_keys_distinct()
    ensures wh_key() != ctx_key(), wh_key() != end_key(), skey("meta_info"@) != skey("call_stack"@), skey("start"@) != skey("end"@), skey("meta_info"@) != skey("line_context_name"@),
{
    reveal_strlit("duckscriptsdk::runtime"); reveal_strlit("line_context_name"); reveal_strlit("duckscriptsdk::command"); reveal_strlit("while");
    reveal_strlit("end"); reveal_strlit("::"); reveal_strlit("meta_info"); reveal_strlit("call_stack"); reveal_strlit("start");
    assert(concat_spec("duckscriptsdk::runtime"@, "line_context_name"@).len() == 41);
    assert(concat_spec("duckscriptsdk::command"@, "while"@).len() == 29);
    assert(concat_spec("duckscriptsdk::command"@, "end"@).len() == 27);
    assert("meta_info"@.len() == 9 && "call_stack"@.len() == 10 && "start"@.len() == 5 && "end"@.len() == 3 && "line_context_name"@.len() == 17);
    lemma_skey_inj(concat_spec("duckscriptsdk::command"@, "while"@), concat_spec("duckscriptsdk::runtime"@, "line_context_name"@));
    lemma_skey_inj(concat_spec("duckscriptsdk::command"@, "while"@), concat_spec("duckscriptsdk::command"@, "end"@));
    lemma_skey_inj("meta_info"@, "call_stack"@); lemma_skey_inj("start"@, "end"@); lemma_skey_inj("meta_info"@, "line_context_name"@);
}
} // mod whspec
