// ===== runner lemmas =====
/// the label table maps a label to the LARGEST index carrying it, and contains nothing else
pub proof fn lemma_labels_largest(instrs: Seq<Instruction>, n: int)
    requires 0 <= n <= instrs.len(), n <= usize::MAX,
    ensures
        forall|l: String| #[trigger] labels_upto(instrs, n).contains_key(l) <==> exists|i: int| 0 <= i < n && label_of(#[trigger] instrs[i]) == Some(l),
        forall|l: String| #[trigger] labels_upto(instrs, n).contains_key(l) ==> {
            let k = labels_upto(instrs, n)[l] as int;
            0 <= k < n && label_of(instrs[k]) == Some(l) && forall|i: int| k < i < n ==> label_of(#[trigger] instrs[i]) != Some(l)
        },
    decreases n
{
    if n > 0 {
        lemma_labels_largest(instrs, n - 1);
        let m = labels_upto(instrs, n - 1);
        let full = labels_upto(instrs, n);
        assert forall|l: String| #[trigger] full.contains_key(l) implies exists|i: int| 0 <= i < n && label_of(#[trigger] instrs[i]) == Some(l) by {
            if label_of(instrs[n - 1]) == Some(l) { } else { assert(m.contains_key(l)); }
        }
        assert forall|l: String| (exists|i: int| 0 <= i < n && label_of(#[trigger] instrs[i]) == Some(l)) implies #[trigger] full.contains_key(l) by {
            let i = choose|i: int| 0 <= i < n && label_of(#[trigger] instrs[i]) == Some(l);
            if i == n - 1 { } else { assert(m.contains_key(l)); }
        }
        assert forall|l: String| #[trigger] full.contains_key(l) implies ({
            let k = full[l] as int;
            0 <= k < n && label_of(instrs[k]) == Some(l) && forall|i: int| k < i < n ==> label_of(#[trigger] instrs[i]) != Some(l)
        }) by {
            if label_of(instrs[n - 1]) == Some(l) { assert(full[l] == (n - 1) as usize); }
            else { assert(m.contains_key(l)); assert(full[l] == m[l]); }
        }
    }
}
