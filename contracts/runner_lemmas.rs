// ===== runner lemmas =====
/// the label table maps a label to the LARGEST index carrying it, and contains nothing else
pub proof fn lemma_labels_largest(instrs: Seq<Instruction>, n: int)
    requires 0 <= n <= instrs.len(), n <= usize::MAX,
    ensures
        forall|l: String| #[trigger] labels_upto(instrs, n).contains_key(l) <==> exists|i: int| 0 <= i < n && label_of(#[trigger] instrs[i]) == Some(l),
        forall|l: String| #[trigger] labels_upto(instrs, n).contains_key(l) ==> {
            let k = labels_upto(instrs, n)[l] as int;
            0 <= k < n && label_of(instrs[k]) == Some(l) && forall|i: int| k < i < n ==> label_of(#[trigger] instrs[i]) != Some(l)
        },
    decreases n
{
    if n > 0 {
        lemma_labels_largest(instrs, n - 1);
        let m = labels_upto(instrs, n - 1);
        let full = labels_upto(instrs, n);
        assert forall|l: String| #[trigger] full.contains_key(l) implies exists|i: int| 0 <= i < n && label_of(#[trigger] instrs[i]) == Some(l) by {
            if label_of(instrs[n - 1]) == Some(l) { } else { assert(m.contains_key(l)); }
        }
        assert forall|l: String| (exists|i: int| 0 <= i < n && label_of(#[trigger] instrs[i]) == Some(l)) implies #[trigger] full.contains_key(l) by {
            let i = choose|i: int| 0 <= i < n && label_of(#[trigger] instrs[i]) == Some(l);
            if i == n - 1 { } else { assert(m.contains_key(l)); }
        }
        assert forall|l: String| #[trigger] full.contains_key(l) implies ({
            let k = full[l] as int;
            0 <= k < n && label_of(instrs[k]) == Some(l) && forall|i: int| k < i < n ==> label_of(#[trigger] instrs[i]) != Some(l)
        }) by {
            if label_of(instrs[n - 1]) == Some(l) { assert(full[l] == (n - 1) as usize); }
            else { assert(m.contains_key(l)); assert(full[l] == m[l]); }
        }
    }
}

/// appending one well-formed step that starts where the trace stands keeps the trace well-formed
pub proof fn lemma_trace_push(instrs: Seq<Instruction>, labels: Map<String, usize>, repl: bool, start: usize, v_init: Map<String, String>, tr: Seq<Step>, st: Step)
    requires
        trace_ok(instrs, labels, repl, start, v_init, tr),
        tr.len() > 0 ==> next_of(tr.last(), labels, repl) is To,
        step_ok(instrs, st),
        st.line == cur_line(labels, repl, start, tr),
        st.v0 == cur_vars(v_init, tr),
    ensures trace_ok(instrs, labels, repl, start, v_init, tr.push(st)),
{
    reveal(trace_ok);
    let t2 = tr.push(st);
    assert forall|i: int| 0 <= i < t2.len() implies step_ok(instrs, #[trigger] t2[i]) by { if i < tr.len() { assert(t2[i] == tr[i]); } }
    assert forall|i: int| 0 <= i < t2.len() implies (#[trigger] t2[i]).line == (if i == 0 { start } else { next_of(t2[i - 1], labels, repl)->To_0 }) by {
        if i < tr.len() { assert(t2[i] == tr[i]); if i > 0 { assert(t2[i - 1] == tr[i - 1]); } } else if i > 0 { assert(t2[i - 1] == tr.last()); }
    }
    assert forall|i: int| 0 <= i < t2.len() implies (#[trigger] t2[i]).v0 == (if i == 0 { v_init } else { v_after(t2[i - 1]) }) by {
        if i < tr.len() { assert(t2[i] == tr[i]); if i > 0 { assert(t2[i - 1] == tr[i - 1]); } } else if i > 0 { assert(t2[i - 1] == tr.last()); }
    }
    assert forall|i: int| 0 <= i < t2.len() - 1 implies next_of(#[trigger] t2[i], labels, repl) is To by {
        assert(t2[i] == tr[i]);
        if i == tr.len() - 1 { assert(tr[i] == tr.last()); }
    }
}

pub proof fn lemma_env_push(e_init: Env, tr: Seq<Step>, st: Step)
    requires env_threaded(e_init, tr), st.e0 == cur_env(e_init, tr),
    ensures env_threaded(e_init, tr.push(st)), cur_env(e_init, tr.push(st)) == e_after(st),
{
    reveal(env_threaded);
    let t2 = tr.push(st);
    assert forall|i: int| 0 <= i < t2.len() implies (#[trigger] t2[i]).e0 == (if i == 0 { e_init } else { e_after(t2[i - 1]) }) by {
        if i < tr.len() { assert(t2[i] == tr[i]); if i > 0 { assert(t2[i - 1] == tr[i - 1]); } } else if i > 0 { assert(t2[i - 1] == tr.last()); }
    }
    assert(t2.last() == st);
}
pub proof fn lemma_env_empty(e_init: Env) ensures env_threaded(e_init, Seq::empty()) { reveal(env_threaded); }

pub proof fn lemma_trace_empty(instrs: Seq<Instruction>, labels: Map<String, usize>, repl: bool, start: usize, v_init: Map<String, String>)
    ensures trace_ok(instrs, labels, repl, start, v_init, Seq::empty()),
{ reveal(trace_ok); }
