// ===== for-in: loop descriptions, the stack of running loops with their iteration, the loop-back marker =====
pub mod frspec {
use vstd::prelude::*;
use crate::duckscript::types::runtime::StateValue;
use crate::duckscriptsdk::sspec::*;
use crate::duckscriptsdk::fspec::{has_unum, has_str, ctx_key, ctx_name, lemma_skey_inj, fn_key, fn_stack, fn_state};
use crate::duckscriptsdk::ifspec::end_key;
use crate::trusted::*;
broadcast use crate::trusted::strings;

pub open spec fn fr_key() -> String { skey(concat_spec("duckscriptsdk::command"@, "forin"@)) }
pub open spec fn frst(state: Map<String, StateValue>) -> Map<String, StateValue> { sub_of(state, fr_key()) }
/// the stack of running for-in loops, oldest first
pub open spec fn fr_stack(state: Map<String, StateValue>) -> Seq<StateValue> { list_of(frst(state), skey("call_stack"@)) }
pub open spec fn fr_cache(state: Map<String, StateValue>) -> Map<String, StateValue> { sub_of(frst(state), skey("meta_info"@)) }
/// the line of the `for` that the end of a loop has just jumped back to (None = the `for` is entered afresh)
pub open spec fn loop_back(state: Map<String, StateValue>) -> Option<usize> {
    if frst(state).contains_key(skey("loop_back"@)) && frst(state)[skey("loop_back"@)] is UnsignedNumber { Some(frst(state)[skey("loop_back"@)]->UnsignedNumber_0) } else { None }
}
pub struct LMV { pub start: usize, pub end: usize }
/// a running loop: how many elements have been handed out, its block, its context, and how many function calls
/// were in progress when it was entered (a recursive call runs the same lines: its loops are not the caller's)
pub struct LCV { pub iteration: usize, pub meta: LMV, pub ctx: Seq<char>, pub depth: usize }
/// the number of function calls in progress
pub open spec fn fn_depth(state: Map<String, StateValue>) -> int { fn_stack(state).len() as int }
pub open spec fn fmeta_view(m: Map<String, StateValue>) -> Option<LMV> {
    if has_unum(m, "start"@) && has_unum(m, "end"@) { Some(LMV { start: m[skey("start"@)]->UnsignedNumber_0, end: m[skey("end"@)]->UnsignedNumber_0 }) } else { None }
}
pub open spec fn fci_view(m: Map<String, StateValue>) -> Option<LCV> {
    if has_unum(m, "iteration"@) && m.contains_key(skey("meta_info"@)) && m[skey("meta_info"@)] is SubState && fmeta_view(m[skey("meta_info"@)]->SubState_0@) is Some && has_str(m, "line_context_name"@) && has_unum(m, "call_depth"@) {
        Some(LCV { iteration: m[skey("iteration"@)]->UnsignedNumber_0, meta: fmeta_view(m[skey("meta_info"@)]->SubState_0@)->0, ctx: m[skey("line_context_name"@)]->String_0@, depth: m[skey("call_depth"@)]->UnsignedNumber_0 })
    } else { None }
}
/// C05 "every later call starts afresh ... including recursive calls": an entry is the loop of the `for` / end at
/// `line` only for the call it was entered in
pub open spec fn fr_matches(c: LCV, line: usize, ctx: Seq<char>, depth: int) -> bool { (c.meta.start == line || c.meta.end == line) && c.ctx == ctx && c.depth == depth }
/// popping for the `for` / end at `line`. recursive (the end command): entries of other loops are discarded.
/// Not recursive (the `for` line looping back): only the top entry is looked at and it is put back when it
/// belongs to another loop. `st1` is the stack afterwards.
pub open spec fn fpop_rel(st: Seq<StateValue>, line: usize, ctx: Seq<char>, depth: int, recursive: bool, r: Option<LCV>, st1: Seq<StateValue>) -> bool
    decreases st.len()
{
    if st.len() == 0 { r is None && st1 =~= st }
    else {
        let top = st.last();
        let rest = st.drop_last();
        if top is SubState {
            match fci_view(top->SubState_0@) {
                Some(c) =>
                    if fr_matches(c, line, ctx, depth) { r == Some(c) && st1 =~= rest }
                    else if recursive { fpop_rel(rest, line, ctx, depth, recursive, r, st1) }
                    else { r is None && st1.len() == rest.len() + 1 && st1.drop_last() =~= rest && st1.last() is SubState && fci_view(st1.last()->SubState_0@) == Some(c) },
                None => r is None && st1 =~= rest,
            }
        } else { fpop_rel(rest, line, ctx, depth, recursive, r, st1) }
    }
}

/// what the non-recursive pop (the `for` line looping back) finds: only the topmost sub-state entry counts
pub open spec fn ftop(st: Seq<StateValue>, line: usize, ctx: Seq<char>, depth: int) -> Option<LCV>
    decreases st.len()
{
    if st.len() == 0 { None }
    else if st.last() is SubState {
        match fci_view(st.last()->SubState_0@) { Some(c) => if fr_matches(c, line, ctx, depth) { Some(c) } else { None }, None => None }
    } else { ftop(st.drop_last(), line, ctx, depth) }
}
pub proof fn lemma_ftop(st: Seq<StateValue>, line: usize, ctx: Seq<char>, depth: int, r: Option<LCV>, st1: Seq<StateValue>)
    requires fpop_rel(st, line, ctx, depth, false, r, st1)
    ensures r == ftop(st, line, ctx, depth)
    decreases st.len()
{
    if st.len() > 0 && !(st.last() is SubState) { lemma_ftop(st.drop_last(), line, ctx, depth, r, st1); }
}
/// Layer B (C05, recursion): whatever a deeper or shallower call left on the stack of running loops, the end of a
/// loop never resumes it - the entry it finds was entered at the current call depth, for this line, in this context
pub proof fn thm_loop_of_this_call_only(st: Seq<StateValue>, line: usize, ctx: Seq<char>, depth: int, recursive: bool, r: Option<LCV>, st1: Seq<StateValue>)
    requires fpop_rel(st, line, ctx, depth, recursive, r, st1)
    ensures r matches Some(c) ==> c.depth == depth && c.ctx == ctx && (c.meta.start == line || c.meta.end == line), st1.len() <= st.len(),
    decreases st.len()
{
    if st.len() > 0 {
        let top = st.last();
        if top is SubState {
            match fci_view(top->SubState_0@) {
                Some(c) => if !fr_matches(c, line, ctx, depth) && recursive { thm_loop_of_this_call_only(st.drop_last(), line, ctx, depth, recursive, r, st1); },
                None => {},
            }
        } else { thm_loop_of_this_call_only(st.drop_last(), line, ctx, depth, recursive, r, st1); }
    }
}

pub proof fn lemma_other_key2(s0: Map<String, StateValue>, s1: Map<String, StateValue>, k1: String, k2: String, j: String)
    requires s1.remove(k1).remove(k2) =~= s0.remove(k1).remove(k2), j != k1, j != k2
    ensures s1.contains_key(j) == s0.contains_key(j), s0.contains_key(j) ==> s1[j] == s0[j], sub_of(s1, j) == sub_of(s0, j), list_of(s1, j) == list_of(s0, j)
{
    assert(s0.remove(k1).remove(k2).contains_key(j) == s0.contains_key(j));
    assert(s1.remove(k1).remove(k2).contains_key(j) == s1.contains_key(j));
    if s0.contains_key(j) { assert(s0.remove(k1).remove(k2)[j] == s0[j]); assert(s1.remove(k1).remove(k2)[j] == s1[j]); }
}
pub proof fn lemma_other_key3(s0: Map<String, StateValue>, s1: Map<String, StateValue>, k1: String, k2: String, k3: String, j: String)
    requires s1.remove(k1).remove(k2).remove(k3) =~= s0.remove(k1).remove(k2).remove(k3), j != k1, j != k2, j != k3
    ensures s1.contains_key(j) == s0.contains_key(j), s0.contains_key(j) ==> s1[j] == s0[j], sub_of(s1, j) == sub_of(s0, j), list_of(s1, j) == list_of(s0, j)
{
    assert(s0.remove(k1).remove(k2).remove(k3).contains_key(j) == s0.contains_key(j));
    assert(s1.remove(k1).remove(k2).remove(k3).contains_key(j) == s1.contains_key(j));
    if s0.contains_key(j) { assert(s0.remove(k1).remove(k2).remove(k3)[j] == s0[j]); assert(s1.remove(k1).remove(k2).remove(k3)[j] == s1[j]); }
}
/// the function call stack was at most read (reading materialises its empty containers)
pub open spec fn fn_stack_read(s0: Map<String, StateValue>, s1: Map<String, StateValue>) -> bool {
    fn_stack(s1) == fn_stack(s0) && fn_state(s1).remove(skey("call_stack"@)) =~= fn_state(s0).remove(skey("call_stack"@))
}
pub open spec fn only_fr_stack_changed(s0: Map<String, StateValue>, s1: Map<String, StateValue>) -> bool {
    &&& s1.remove(fr_key()).remove(ctx_key()).remove(fn_key()) =~= s0.remove(fr_key()).remove(ctx_key()).remove(fn_key())
    &&& fn_stack_read(s0, s1)
    &&& ctx_name(s1) == ctx_name(s0)
    &&& is_sub(s1, fr_key())
    &&& frst(s1).remove(skey("call_stack"@)) =~= frst(s0).remove(skey("call_stack"@))
    &&& is_list(frst(s1), skey("call_stack"@))
}
/// the element handed out for iteration k of the array behind `handle` (None = past the end, no array, or an
/// element that has no text form)
pub open spec fn next_item(state: Map<String, StateValue>, handle: String, k: usize) -> Option<Seq<char>> {
    let h = handles(state);
    if h.contains_key(handle) && h[handle] is List && k < h[handle]->List_0@.len() { as_string_spec(h[handle]->List_0@[k as int]) } else { None }
}
pub proof fn lemma_fr_keys_distinct()
    ensures fr_key() != ctx_key(), fr_key() != end_key(), fr_key() != skey("handles"@), skey("handles"@) != ctx_key(), skey("handles"@) != end_key(),
        skey("meta_info"@) != skey("call_stack"@), skey("meta_info"@) != skey("loop_back"@), skey("call_stack"@) != skey("loop_back"@),
        skey("start"@) != skey("end"@), skey("meta_info"@) != skey("line_context_name"@), skey("iteration"@) != skey("meta_info"@), skey("iteration"@) != skey("line_context_name"@),
{
    reveal_strlit("duckscriptsdk::runtime"); reveal_strlit("line_context_name"); reveal_strlit("duckscriptsdk::command"); reveal_strlit("forin");
    reveal_strlit("end"); reveal_strlit("::"); reveal_strlit("meta_info"); reveal_strlit("call_stack"); reveal_strlit("start"); reveal_strlit("loop_back");
    reveal_strlit("handles"); reveal_strlit("iteration");
    assert(concat_spec("duckscriptsdk::runtime"@, "line_context_name"@).len() == 41);
    assert(concat_spec("duckscriptsdk::command"@, "forin"@).len() == 29);
    assert(concat_spec("duckscriptsdk::command"@, "end"@).len() == 27);
    assert("meta_info"@.len() == 9 && "call_stack"@.len() == 10 && "start"@.len() == 5 && "end"@.len() == 3 && "line_context_name"@.len() == 17 && "loop_back"@.len() == 9 && "handles"@.len() == 7 && "iteration"@.len() == 9);
    assert("meta_info"@[0] == 'm' && "loop_back"@[0] == 'l' && "iteration"@[0] == 'i');
    lemma_skey_inj(concat_spec("duckscriptsdk::command"@, "forin"@), concat_spec("duckscriptsdk::runtime"@, "line_context_name"@));
    lemma_skey_inj(concat_spec("duckscriptsdk::command"@, "forin"@), concat_spec("duckscriptsdk::command"@, "end"@));
    lemma_skey_inj(concat_spec("duckscriptsdk::command"@, "forin"@), "handles"@);
    lemma_skey_inj("handles"@, concat_spec("duckscriptsdk::runtime"@, "line_context_name"@));
    lemma_skey_inj("handles"@, concat_spec("duckscriptsdk::command"@, "end"@));
    lemma_skey_inj("meta_info"@, "call_stack"@); lemma_skey_inj("meta_info"@, "loop_back"@); lemma_skey_inj("call_stack"@, "loop_back"@);
    lemma_skey_inj("start"@, "end"@); lemma_skey_inj("meta_info"@, "line_context_name"@); lemma_skey_inj("iteration"@, "meta_info"@); lemma_skey_inj("iteration"@, "line_context_name"@);
}
/// the function module's state key and the call-depth field are distinct from the keys used here
pub proof fn lemma_fn_keys_distinct()
    ensures fr_key() != fn_key(), fn_key() != ctx_key(), fn_key() != end_key(), fn_key() != skey("handles"@),
        skey("call_depth"@) != skey("iteration"@), skey("call_depth"@) != skey("meta_info"@), skey("call_depth"@) != skey("line_context_name"@),
{
    reveal_strlit("duckscriptsdk::runtime"); reveal_strlit("line_context_name"); reveal_strlit("duckscriptsdk::command"); reveal_strlit("forin");
    reveal_strlit("end"); reveal_strlit("::"); reveal_strlit("meta_info"); reveal_strlit("handles"); reveal_strlit("iteration"); reveal_strlit("function"); reveal_strlit("call_depth");
    assert(concat_spec("duckscriptsdk::runtime"@, "line_context_name"@).len() == 41);
    assert(concat_spec("duckscriptsdk::command"@, "forin"@).len() == 29);
    assert(concat_spec("duckscriptsdk::command"@, "end"@).len() == 27);
    assert(concat_spec("duckscriptsdk::command"@, "function"@).len() == 32);
    assert("call_depth"@.len() == 10 && "meta_info"@.len() == 9 && "line_context_name"@.len() == 17 && "handles"@.len() == 7 && "iteration"@.len() == 9);
    lemma_skey_inj(concat_spec("duckscriptsdk::command"@, "forin"@), concat_spec("duckscriptsdk::command"@, "function"@));
    lemma_skey_inj(concat_spec("duckscriptsdk::command"@, "function"@), concat_spec("duckscriptsdk::runtime"@, "line_context_name"@));
    lemma_skey_inj(concat_spec("duckscriptsdk::command"@, "function"@), concat_spec("duckscriptsdk::command"@, "end"@));
    lemma_skey_inj(concat_spec("duckscriptsdk::command"@, "function"@), "handles"@);
    lemma_skey_inj("call_depth"@, "iteration"@); lemma_skey_inj("call_depth"@, "meta_info"@); lemma_skey_inj("call_depth"@, "line_context_name"@);
}
} // mod frspec
