// ===== C09 Layer B (code independent): re-serialising a statement and parsing it again gives back the statement =====
// utils/eval.rs rebuilds a line from the words of a statement (unit evalparse: parse == parser(ser_line(words)));
// the parser reads lines with the reference machine (unit parser). This file closes the gap between the two for the
// class of words the property promises: the reference machine applied to ser_line(words) yields the command words[0]
// and EXACTLY the arguments words[1..] - no label, no output variable, nothing split, joined, trimmed or dropped.
// Outside the class are the weaknesses listed as known findings (a double quote, a '#', a line break, a first argument
// that starts with '=') and backslashes (covered by the sampled finder only).

pub open spec fn c09_char(c: char) -> bool { c != '"' && c != '#' && c != '\\' && c != '\r' && c != '\n' }
/// an argument value of the class: any text (blanks, tabs and other white space included, empty included) without those characters
pub open spec fn c09_arg(a: Seq<char>) -> bool { forall|i: int| 0 <= i < a.len() ==> c09_char(#[trigger] a[i]) }
/// a command name as it is written: a non-empty run of plain characters without white space, not starting with ':' or '!'
pub open spec fn c09_cmd(c: Seq<char>) -> bool {
    c.len() > 0 && c[0] != ':' && c[0] != '!' && forall|i: int| 0 <= i < c.len() ==> plain(#[trigger] c[i], f_out()) && !crate::is_ws(c[i]) && c[i] != '"'
}
/// how eval.rs writes one argument, seen as a rendering the Layer B theorems of the parser know: one blank, then the
/// value between quotes when it is empty or holds white space, bare otherwise
pub open spec fn argr(a: Seq<char>) -> ArgR { ArgR { sp: 1, quoted: a.len() == 0 || crate::has_ws(a), body: a, val: a } }
pub open spec fn argrs(args: Seq<Seq<char>>, n: int) -> Seq<ArgR> decreases n {
    if n <= 1 { Seq::empty() } else { argrs(args, n - 1).push(argr(args[n - 1])) }
}

pub proof fn lemma_rep_id(s: Seq<char>, c: char, to: Seq<char>)
    requires !s.contains(c)
    ensures crate::replace_char_spec(s, c, to) == s
    decreases s.len()
{
    if s.len() > 0 {
        let tail = s.subrange(1, s.len() as int);
        assert(s[0] != c) by { assert(s.contains(s[0])); }
        assert(!tail.contains(c)) by { if tail.contains(c) { let i = choose|i: int| 0 <= i < tail.len() && tail[i] == c; assert(s[i + 1] == c); } }
        lemma_rep_id(tail, c, to);
        assert(seq![s[0]] + tail =~= s);
    } else {
        assert(crate::replace_char_spec(s, c, to) =~= s);
    }
}
pub proof fn lemma_renders_self(a: Seq<char>)
    requires c09_arg(a)
    ensures renders_q(a, a)
    decreases a.len()
{
    if a.len() > 0 {
        let t = a.subrange(1, a.len() as int);
        assert forall|i: int| 0 <= i < t.len() implies c09_char(#[trigger] t[i]) by { assert(t[i] == a[i + 1]); }
        lemma_renders_self(t);
        let p = a.subrange(0, 1);
        assert(p.len() == 1 && p[0] == a[0]);
        assert(c09_char(a[0]));
        assert(piece_ok(p, a[0]));
    }
}
pub proof fn lemma_argr(a: Seq<char>)
    requires c09_arg(a)
    ensures arg_ok(argr(a)), arg_text(argr(a)) == seq![' '] + ser_arg(a), !arg_text(argr(a)).contains('\r') && !arg_text(argr(a)).contains('\n') && !arg_text(argr(a)).contains('\\'),
        arg_text(argr(a)).len() >= 2, !crate::is_ws(arg_text(argr(a)).last()),
{
    reveal_strlit("\"\"");
    reveal_strlit("\"");
    let r = argr(a);
    assert(spaces(1) =~= seq![' ']);
    crate::is_ws_ascii(' '); crate::is_ws_ascii('"');
    assert(crate::is_ws(' ') && !crate::is_ws('"'));
    if a.len() == 0 {
        assert(renders_q(a, a));
        assert("\"\""@ =~= seq!['"'] + a + seq!['"']);
        assert(ser_arg(a) == "\"\""@);
    } else if crate::has_ws(a) {
        lemma_renders_self(a);
        assert(c09_char(a[0]));
        assert(!crate::starts_with_spec(a, "\""@)) by { assert("\""@.len() == 1 && "\""@[0] == '"'); if crate::starts_with_spec(a, "\""@) { assert(a.subrange(0, 1)[0] == '"'); } }
    } else {
        assert(c09_char(a[0]));
        assert(!crate::starts_with_spec(a, "\""@)) by { assert("\""@.len() == 1 && "\""@[0] == '"'); if crate::starts_with_spec(a, "\""@) { assert(a.subrange(0, 1)[0] == '"'); } }
        assert forall|k: int| 0 <= k < a.len() implies arg_char(#[trigger] a[k]) by {
            assert(c09_char(a[k]));
            assert(!crate::is_ws(a[k]));
            if a[k] == ' ' { assert(crate::is_ws(a[k])); }
        }
    }
    let t = arg_text(r);
    assert forall|i: int| 0 <= i < t.len() implies t[i] != '\r' && t[i] != '\n' && t[i] != '\\' by {
        if r.quoted { if 1 < i < t.len() - 1 { assert(t[i] == a[i - 2]); assert(c09_char(a[i - 2])); } }
        else { if i >= 1 { assert(t[i] == a[i - 1]); assert(c09_char(a[i - 1])); } }
    }
    if !r.quoted { assert(t.last() == a.last()); assert(!crate::is_ws(a[a.len() - 1])); } else { assert(t.last() == '"'); }
}
pub proof fn lemma_args_text_push(a: Seq<ArgR>, x: ArgR)
    ensures args_text(a.push(x)) == args_text(a) + arg_text(x)
    decreases a.len()
{
    if a.len() == 0 {
        let b = a.push(x);
        assert(b.len() == 1 && b[0] == x);
        assert(b.drop_first() =~= Seq::<ArgR>::empty());
        assert(args_text(b.drop_first()) =~= Seq::<char>::empty());
        assert(args_text(b) == arg_text(b[0]) + args_text(b.drop_first()));
        assert(args_text(a.push(x)) =~= arg_text(x) + Seq::<char>::empty());
        assert(args_text(a) + arg_text(x) =~= arg_text(x));
        assert(arg_text(x) + Seq::<char>::empty() =~= arg_text(x));
    } else {
        assert(a.push(x).drop_first() =~= a.drop_first().push(x));
        lemma_args_text_push(a.drop_first(), x);
        assert(a.push(x)[0] == a[0]);
        assert(arg_text(a[0]) + (args_text(a.drop_first()) + arg_text(x)) =~= (arg_text(a[0]) + args_text(a.drop_first())) + arg_text(x));
    }
}
/// the words written one after the other, each followed by one blank == the command, then every argument as ` rendering`, then one blank
pub proof fn lemma_ser_upto(args: Seq<Seq<char>>, n: int)
    requires 1 <= n <= args.len(), c09_cmd(args[0]), forall|k: int| 1 <= k < args.len() ==> c09_arg(#[trigger] args[k]),
    ensures ser_upto(args, n) == args[0] + args_text(argrs(args, n)) + seq![' '],
        argrs(args, n).len() == n - 1,
        forall|k: int| 0 <= k < n - 1 ==> #[trigger] argrs(args, n)[k] == argr(args[k + 1]),
        !ser_upto(args, n).contains('\r') && !ser_upto(args, n).contains('\n') && !ser_upto(args, n).contains('\\'),
        !crate::is_ws((args[0] + args_text(argrs(args, n))).last()),
    decreases n
{
    reveal_strlit("\"");
    let c = args[0];
    assert(!crate::has_ws(c)) by { if crate::has_ws(c) { let i = choose|i: int| 0 <= i < c.len() && crate::is_ws(c[i]); assert(plain(c[i], f_out())); } }
    assert(!crate::starts_with_spec(c, "\""@)) by { assert("\""@.len() == 1 && "\""@[0] == '"'); if crate::starts_with_spec(c, "\""@) { assert(c.subrange(0, 1)[0] == '"'); assert(plain(c[0], f_out())); } }
    assert(ser_arg(c) == c);
    assert forall|i: int| 0 <= i < c.len() implies c[i] != '\r' && c[i] != '\n' && c[i] != '\\' by { assert(plain(c[i], f_out())); assert(!crate::is_ws(c[i])); if c[i] == '\r' || c[i] == '\n' { crate::is_ws_ascii(c[i]); assert(crate::is_ws(c[i])); } }
    if n == 1 {
        assert(ser_upto(args, 0) =~= Seq::<char>::empty());
        assert(ser_upto(args, 1) =~= c + seq![' ']);
        assert(args_text(argrs(args, 1)) =~= Seq::<char>::empty());
        assert(c + args_text(argrs(args, 1)) + seq![' '] =~= c + seq![' ']);
        assert(c + args_text(argrs(args, 1)) =~= c);
        assert(plain(c[c.len() - 1], f_out()));
        let s = ser_upto(args, 1);
        assert forall|i: int| 0 <= i < s.len() implies s[i] != '\r' && s[i] != '\n' && s[i] != '\\' by { if i < c.len() { assert(s[i] == c[i]); } }
    } else {
        lemma_ser_upto(args, n - 1);
        let a = args[n - 1];
        lemma_argr(a);
        let prev = argrs(args, n - 1);
        lemma_args_text_push(prev, argr(a));
        let s0 = c + args_text(prev);
        assert(ser_upto(args, n) == ser_upto(args, n - 1) + ser_arg(a) + seq![' ']);
        assert(ser_upto(args, n - 1) + ser_arg(a) + seq![' '] =~= s0 + (seq![' '] + ser_arg(a)) + seq![' ']);
        assert(c + args_text(argrs(args, n)) + seq![' '] =~= s0 + arg_text(argr(a)) + seq![' ']);
        let s = ser_upto(args, n);
        let sp = ser_upto(args, n - 1);
        let at = arg_text(argr(a));
        assert(s =~= s0 + at + seq![' ']);
        assert forall|i: int| 0 <= i < s.len() implies s[i] != '\r' && s[i] != '\n' && s[i] != '\\' by {
            if i < s0.len() { assert(s[i] == sp[i]); assert(sp.contains(sp[i])); }
            else if i < s0.len() + at.len() { assert(s[i] == at[i - s0.len()]); assert(at.contains(at[i - s0.len()])); }
        }
        assert((c + args_text(argrs(args, n))) =~= s0 + at);
        assert((s0 + at).last() == at.last());
        assert forall|k: int| 0 <= k < n - 1 implies #[trigger] argrs(args, n)[k] == argr(args[k + 1]) by {
            if k < n - 2 { assert(argrs(args, n)[k] == prev[k]); }
        }
    }
}
pub proof fn lemma_trim_end_one_blank(l: Seq<char>)
    requires l.len() > 0, !crate::is_ws(l.last())
    ensures crate::trim_end_spec(l + seq![' ']) == l
{
    let t = l + seq![' '];
    crate::is_ws_ascii(' ');
    assert(crate::is_ws(' '));
    assert(t[t.len() - 1] == ' ');
    assert(t.subrange(0, t.len() - 1) =~= l);
    assert(crate::trim_end_spec(l) == l);
}

/// C09 on the promised class: the line eval.rs builds from the words of a statement is read back by the reference
/// line machine as exactly that statement
pub proof fn thm_c09_roundtrip(args: Seq<Seq<char>>)
    requires
        args.len() >= 1, c09_cmd(args[0]),
        forall|k: int| 1 <= k < args.len() ==> c09_arg(#[trigger] args[k]),
        // (known finding) a first argument written bare must not start with '='
        args.len() > 1 && args[1].len() > 0 && !crate::has_ws(args[1]) ==> args[1][0] != '=',
    ensures
        line_spec(ser_line(args)) == Ok::<IView, PErr>(IView::Script { label: None, output: None, command: Some(args[0]), arguments: opt_args(args.subrange(1, args.len() as int)) }),
{
    let n = args.len() as int;
    lemma_ser_upto(args, n);
    let s = ser_upto(args, n);
    let e = Seq::<char>::empty();
    reveal_strlit("\\\\");
    lemma_rep_id(s, '\r', e);
    lemma_rep_id(s, '\n', e);
    lemma_rep_id(s, '\\', "\\\\"@);
    assert(ser_line(args) == s);
    let a = argrs(args, n);
    let c = args[0];
    let l = c + args_text(a);
    assert(s == l + seq![' ']);
    assert(l.len() > 0);
    assert(l[0] == c[0]);
    assert(plain(c[0], f_out()) && !crate::is_ws(c[0]));
    assert(crate::trim_start_spec(s) == s) by { assert(s[0] == c[0]); }
    lemma_trim_end_one_blank(l);
    assert(crate::trim_spec(s) == l);
    thm_line_spec(s, l);
    assert(l[0] != '#' && l[0] != '!');
    // the rendering the parser theorems speak about
    assert forall|k: int| 0 <= k < a.len() implies arg_ok(#[trigger] a[k]) by { assert(a[k] == argr(args[k + 1])); lemma_argr(args[k + 1]); }
    assert(token_at(l, 0, c.len() as int, f_out())) by {
        assert forall|k: int| 0 <= k < c.len() implies plain(#[trigger] l[k], f_out()) by { assert(l[k] == c[k]); }
        assert(l[0] != '"');
    }
    assert(spaces_at(l, 0, 0));
    assert(l.subrange(c.len() as int, l.len() as int) =~= args_text(a) + e);
    assert(tail_ok(e)) by { assert(e.subrange(0, 0) =~= spaces(0)); }
    if a.len() > 0 { assert(a[0] == argr(args[1])); }
    thm_line(l, None, None, 0, c.len() as int, a, e);
    assert(l.subrange(0, c.len() as int) =~= c);
    assert(args_vals(a) =~= args.subrange(1, n)) by {
        assert forall|k: int| 0 <= k < a.len() implies #[trigger] args_vals(a)[k] == args.subrange(1, n)[k] by { assert(a[k] == argr(args[k + 1])); }
    }
}
