// ===== structured blocks: the documented spellings of the block keywords, and that they do not collide =====
pub mod bnames {
use vstd::prelude::*;
use crate::duckscriptsdk::bspec::*;
use crate::duckscriptsdk::blayerb::names_ok;
use crate::duckscriptsdk::sspec::concat_spec;
use crate::trusted::*;
broadcast use crate::trusted::strings;

/// the full name of a command of package `pkg` (e.g. std::flowcontrol::If)
pub open spec fn q(pkg: Seq<char>, x: Seq<char>) -> String { skey(concat_spec(pkg, x)) }
pub open spec fn k(x: Seq<char>) -> String { skey(x) }
// every spelling of each block keyword, as documented (aliases and full name)
pub open spec fn sp_if(p: Seq<char>) -> Seq<String> { seq![k("if"@), q(p, "If"@)] }
pub open spec fn sp_elseif(p: Seq<char>) -> Seq<String> { seq![k("elif"@), k("elseif"@), q(p, "ElseIf"@)] }
pub open spec fn sp_else(p: Seq<char>) -> Seq<String> { seq![k("else"@), q(p, "Else"@)] }
pub open spec fn sp_end_if(p: Seq<char>) -> Seq<String> { seq![k("end_if"@), k("endif"@), k("fi"@), q(p, "EndIf"@)] }
pub open spec fn sp_while(p: Seq<char>) -> Seq<String> { seq![k("while"@), q(p, "While"@)] }
pub open spec fn sp_end_while(p: Seq<char>) -> Seq<String> { seq![k("end_while"@), k("endwhile"@), q(p, "EndWhile"@)] }
pub open spec fn sp_for(p: Seq<char>) -> Seq<String> { seq![k("for"@), q(p, "ForIn"@)] }
pub open spec fn sp_end_for(p: Seq<char>) -> Seq<String> { seq![k("end_for"@), q(p, "EndForIn"@)] }
pub open spec fn sp_fn(p: Seq<char>) -> Seq<String> { seq![k("function"@), k("fn"@), q(p, "Function"@)] }
pub open spec fn sp_end_fn(p: Seq<char>) -> Seq<String> { seq![k("end_function"@), k("end_fn"@), q(p, "EndFunction"@)] }
pub open spec fn sp_end() -> Seq<String> { seq![k("end"@)] }

/// what the scan for the end of an `if` is told: its own start / middle / end keywords, and - as nested blocks of
/// other kinds - fn, for, while with their ends; the generic `end` closes everything
pub open spec fn if_names(p: Seq<char>) -> Names {
    Names { start: sp_if(p), middle: sp_elseif(p) + sp_else(p), end: sp_end_if(p) + sp_end(),
            start_blocks: sp_fn(p) + sp_for(p) + sp_while(p), end_blocks: sp_end_for(p) + sp_end_fn(p) + sp_end_while(p) + sp_end(), recursive: true }
}
pub open spec fn while_names(p: Seq<char>) -> Names {
    Names { start: sp_while(p), middle: Seq::empty(), end: sp_end_while(p) + sp_end(),
            start_blocks: sp_fn(p) + sp_for(p) + sp_if(p), end_blocks: sp_end_for(p) + sp_end_fn(p) + sp_end_if(p) + sp_end(), recursive: true }
}
pub open spec fn for_names(p: Seq<char>) -> Names {
    Names { start: sp_for(p), middle: Seq::empty(), end: sp_end_for(p) + sp_end(),
            start_blocks: sp_if(p) + sp_fn(p) + sp_while(p), end_blocks: sp_end_if(p) + sp_end_fn(p) + sp_end_while(p) + sp_end(), recursive: true }
}
/// a function definition: a nested `fn` is refused (not recursive)
pub open spec fn fn_names(p: Seq<char>) -> Names {
    Names { start: sp_fn(p), middle: Seq::empty(), end: sp_end_fn(p) + sp_end(),
            start_blocks: sp_if(p) + sp_for(p) + sp_while(p), end_blocks: sp_end_if(p) + sp_end_for(p) + sp_end_while(p) + sp_end(), recursive: false }
}

pub open spec fn no_colon(s: Seq<char>) -> bool { forall|i: int| 0 <= i < s.len() ==> s[i] != ':' }
/// an alias (no colon in it) is never a full name: `pkg::Name`, or `Name` alone for an empty package name
pub proof fn lemma_alias_ne_full(a: Seq<char>, p: Seq<char>, x: Seq<char>)
    requires no_colon(a), a != x, x.len() > 0
    ensures k(a) != q(p, x)
{
    if k(a) == q(p, x) {
        assert(skey(a)@ == a); assert(skey(concat_spec(p, x))@ == concat_spec(p, x));
        reveal_strlit("::");
        if p.len() == 0 { assert(concat_spec(p, x) =~= x); }
        else {
            assert(concat_spec(p, x) == p + "::"@ + x);
            assert((p + "::"@ + x)[p.len() as int] == ':');
            assert(a[p.len() as int] == ':');
        }
    }
}
/// full names of one package differ when the command names differ
pub proof fn lemma_full_ne_full(p: Seq<char>, x: Seq<char>, y: Seq<char>)
    requires x != y, x.len() > 0, y.len() > 0
    ensures q(p, x) != q(p, y)
{
    if q(p, x) == q(p, y) {
        assert(skey(concat_spec(p, x))@ == concat_spec(p, x)); assert(skey(concat_spec(p, y))@ == concat_spec(p, y));
        reveal_strlit("::");
        if p.len() == 0 { assert(concat_spec(p, x) =~= x); assert(concat_spec(p, y) =~= y); }
        else {
            let n = (p.len() + 2) as int;
            assert(concat_spec(p, x) == p + "::"@ + x); assert(concat_spec(p, y) == p + "::"@ + y);
            assert((p + "::"@ + x).subrange(n, (p + "::"@ + x).len() as int) =~= x);
            assert((p + "::"@ + y).subrange(n, (p + "::"@ + y).len() as int) =~= y);
        }
    }
}
} // mod bnames
