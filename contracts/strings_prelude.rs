// ===== strings prelude (trusted): byte-level view of str, which Verus does not model =====
pub uninterp spec fn byte_len(s: Seq<char>) -> int;
pub uninterp spec fn is_boundary(s: Seq<char>, i: int) -> bool;
/// the characters of the byte range [a, b) of s (defined when both ends are char boundaries)
pub uninterp spec fn byte_slice(s: Seq<char>, a: int, b: int) -> Seq<char>;
pub uninterp spec fn parse_isize_spec(s: Seq<char>) -> Option<isize>;
pub uninterp spec fn parse_i64_spec(s: Seq<char>) -> Option<i64>;
#[verifier::external_body]
pub fn v_byte_len(s: &str) -> (r: usize) ensures r == byte_len(s@), r <= isize::MAX { s.len() }
#[verifier::external_body]
pub fn v_is_char_boundary(s: &str, i: usize) -> (r: bool) ensures r == is_boundary(s@, i as int) { s.is_char_boundary(i) }
/// std's slicing panics unless a <= b <= len and both are char boundaries: these are the preconditions
#[verifier::external_body]
pub fn v_str_slice(s: &str, a: usize, b: usize) -> (r: &str)
    requires a <= b <= byte_len(s@), is_boundary(s@, a as int), is_boundary(s@, b as int)
    ensures r@ == byte_slice(s@, a as int, b as int)
{ &s[a..b] }
/// isize -> usize conversion `.try_into().unwrap()` panics on negative values
#[verifier::external_body]
pub fn v_isize_to_usize(v: isize) -> (r: usize) requires v >= 0 ensures r == v { v as usize }
#[verifier::external_body]
pub fn v_parse_isize(s: &str) -> (r: Result<isize, ()>) ensures (r is Ok) == (parse_isize_spec(s@) is Some), r is Ok ==> r->Ok_0 == parse_isize_spec(s@)->0 { s.parse::<isize>().map_err(|_| ()) }
#[verifier::external_body]
pub fn v_parse_i64(s: &str) -> (r: Result<i64, ()>) ensures (r is Ok) == (parse_i64_spec(s@) is Some), r is Ok ==> r->Ok_0 == parse_i64_spec(s@)->0 { s.parse::<i64>().map_err(|_| ()) }
/// byte offset of the first occurrence of p in s (std str::find), None when absent
pub uninterp spec fn byte_find(s: Seq<char>, p: Seq<char>) -> Option<int>;
#[verifier::external_body]
pub fn v_str_find(s: &str, p: &str) -> (r: Option<usize>)
    ensures (r is Some) == (byte_find(s@, p@) is Some), r is Some ==> r->0 == byte_find(s@, p@)->0, r is Some ==> r->0 <= byte_len(s@)
{ s.find(p) }
