// ===== strings prelude (trusted): byte-level view of str, which Verus does not model =====
pub uninterp spec fn byte_len(s: Seq<char>) -> int;
pub uninterp spec fn is_boundary(s: Seq<char>, i: int) -> bool;
/// the characters of the byte range [a, b) of s (defined when both ends are char boundaries)
pub uninterp spec fn byte_slice(s: Seq<char>, a: int, b: int) -> Seq<char>;
pub uninterp spec fn parse_isize_spec(s: Seq<char>) -> Option<isize>;
pub uninterp spec fn parse_i64_spec(s: Seq<char>) -> Option<i64>;
#[verifier::external_body]
pub fn v_byte_len(s: &str) -> (r: usize) ensures r == byte_len(s@), r <= isize::MAX { s.len() }
#[verifier::external_body]
pub fn v_is_char_boundary(s: &str, i: usize) -> (r: bool) ensures r == is_boundary(s@, i as int) { s.is_char_boundary(i) }
/// std's slicing panics unless a <= b <= len and both are char boundaries: these are the preconditions
#[verifier::external_body]
pub fn v_str_slice(s: &str, a: usize, b: usize) -> (r: &str)
    requires a <= b <= byte_len(s@), is_boundary(s@, a as int), is_boundary(s@, b as int)
    ensures r@ == byte_slice(s@, a as int, b as int)
{ &s[a..b] }
/// isize -> usize conversion `.try_into().unwrap()` panics on negative values
#[verifier::external_body]
pub fn v_isize_to_usize(v: isize) -> (r: usize) requires v >= 0 ensures r == v { v as usize }
#[verifier::external_body]
pub fn v_parse_isize(s: &str) -> (r: Result<isize, ()>) ensures (r is Ok) == (parse_isize_spec(s@) is Some), r is Ok ==> r->Ok_0 == parse_isize_spec(s@)->0 { s.parse::<isize>().map_err(|_| ()) }
#[verifier::external_body]
pub fn v_parse_i64(s: &str) -> (r: Result<i64, ()>) ensures (r is Ok) == (parse_i64_spec(s@) is Some), r is Ok ==> r->Ok_0 == parse_i64_spec(s@)->0 { s.parse::<i64>().map_err(|_| ()) }
/// byte offset of the first occurrence of p in s (std str::find), None when absent
pub uninterp spec fn byte_find(s: Seq<char>, p: Seq<char>) -> Option<int>;
#[verifier::external_body]
pub fn v_str_find(s: &str, p: &str) -> (r: Option<usize>)
    ensures (r is Some) == (byte_find(s@, p@) is Some), r is Some ==> r->0 == byte_find(s@, p@)->0, r is Some ==> r->0 <= byte_len(s@)
{ s.find(p) }

// ---- plain string operations the text commands are documented to be (std functions; trusted to match their std documentation) ----
pub open spec fn bool_str(b: bool) -> Seq<char> { if b { "true"@ } else { "false"@ } }
/// p occurs in s as a contiguous run of characters (str::contains with a string pattern)
pub open spec fn has_sub(s: Seq<char>, p: Seq<char>) -> bool { exists|i: int| 0 <= i && i + p.len() <= s.len() && #[trigger] s.subrange(i, i + p.len()) == p }
#[verifier::external_body]
pub fn v_str_contains(s: &str, p: &str) -> (r: bool) ensures r == has_sub(s@, p@) { s.contains(p) }
#[verifier::external_body]
pub fn v_string_eq(a: &String, b: &String) -> (r: bool) ensures r == (a@ == b@) { a == b }
#[verifier::external_body]
pub fn v_str_is_empty(s: &str) -> (r: bool) ensures r == (s@.len() == 0) { s.is_empty() }
/// str::replace: every non-overlapping occurrence of `from`, left to right
pub uninterp spec fn replace_spec(s: Seq<char>, from: Seq<char>, to: Seq<char>) -> Seq<char>;
#[verifier::external_body]
pub fn v_str_replace(s: &str, from: &str, to: &str) -> (r: String) ensures r@ == replace_spec(s@, from@, to@) { s.replace(from, to) }
/// byte offset of the last occurrence of p in s (str::rfind), None when absent
pub uninterp spec fn byte_rfind(s: Seq<char>, p: Seq<char>) -> Option<int>;
#[verifier::external_body]
pub fn v_str_rfind(s: &str, p: &str) -> (r: Option<usize>)
    ensures (r is Some) == (byte_rfind(s@, p@) is Some), r is Some ==> r->0 == byte_rfind(s@, p@)->0
{ s.rfind(p) }
pub uninterp spec fn upper(s: Seq<char>) -> Seq<char>;
#[verifier::external_body]
pub fn v_to_uppercase(s: &str) -> (r: String) ensures r@ == upper(s@) { s.to_uppercase() }
// floating point: values, parsing and order are not interpreted (the verifier has no theory of f64 here)
pub uninterp spec fn parse_f64_spec(s: Seq<char>) -> Option<f64>;
pub uninterp spec fn f64_lt(a: f64, b: f64) -> bool;
pub uninterp spec fn f64_gt(a: f64, b: f64) -> bool;
#[verifier::external_body]
pub fn v_parse_f64(s: &str) -> (r: Result<f64, ()>) ensures (r is Ok) == (parse_f64_spec(s@) is Some), r is Ok ==> r->Ok_0 == parse_f64_spec(s@)->0 { s.parse::<f64>().map_err(|_| ()) }
#[verifier::external_body]
pub fn v_f64_lt(a: f64, b: f64) -> (r: bool) ensures r == f64_lt(a, b) { a < b }
#[verifier::external_body]
pub fn v_f64_gt(a: f64, b: f64) -> (r: bool) ensures r == f64_gt(a, b) { a > b }
#[verifier::external_body]
pub fn v_str_contains_char(s: &str, c: char) -> (r: bool) ensures r == s@.contains(c) { s.contains(c) }
/// names / values std::env::set_var and std::env::remove_var take WITHOUT panicking (std documents: "may panic if key is
/// empty, contains an ASCII equals sign '=' or the NUL character, or when value contains the NUL character")
pub open spec fn env_name_ok(s: Seq<char>) -> bool { s.len() > 0 && !s.contains('=') && !s.contains('\0') }
pub open spec fn env_value_ok(s: Seq<char>) -> bool { !s.contains('\0') }
/// std::env::remove_var / set_var (trusted: the precondition is std's documented no-panic condition)
#[verifier::external_body]
pub fn v_env_remove_var(name: &str) requires env_name_ok(name@) { unimplemented!() }
#[verifier::external_body]
pub fn v_env_set_var(name: &str, value: &str) requires env_name_ok(name@), env_value_ok(value@) { unimplemented!() }
