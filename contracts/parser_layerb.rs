// ===== parser Layer B: the reference machine reads back every documented rendering (C01) =====
// Proved by Verus, independent of the code. Generic scanning lemmas first.

pub open spec fn spaces(n: nat) -> Seq<char> { Seq::new(n, |i: int| ' ') }
/// in-argument, unquoted, no pending escape
pub open spec fn inarg(acc: Seq<char>) -> St { St { in_argument: true, using_quotes: false, in_control: false, fvp: false, arg: acc } }
/// a character that an unquoted token simply accumulates under flags f
pub open spec fn plain(c: char, f: Flags) -> bool { c != '\\' && c != ' ' && c != '#' && !(f.stop_on_equals && c == '=') }

/// leading spaces are skipped before a value starts
pub proof fn lemma_skip_spaces(line: Seq<char>, i: int, j: int, f: Flags)
    requires 0 <= i <= j <= line.len(), forall|k: int| i <= k < j ==> line[k] == ' ',
    ensures scan(line, i, st0(), f) == scan(line, j, st0(), f),
    decreases j - i
{
    if i < j { lemma_skip_spaces(line, i + 1, j, f); }
}
/// a run of plain characters is accumulated verbatim
pub proof fn lemma_plain_run(line: Seq<char>, i: int, j: int, acc: Seq<char>, f: Flags)
    requires 0 <= i <= j <= line.len(), forall|k: int| i <= k < j ==> plain(#[trigger] line[k], f),
    ensures scan(line, i, inarg(acc), f) == scan(line, j, inarg(acc + line.subrange(i, j)), f),
    decreases j - i
{
    if i < j {
        lemma_plain_run(line, i + 1, j, acc.push(line[i]), f);
        assert(acc.push(line[i]) + line.subrange(i + 1, j) =~= acc + line.subrange(i, j));
        assert(plain(line[i], f));
    } else {
        assert(acc + line.subrange(i, j) =~= acc);
    }
}
/// an unquoted token: optional leading spaces, a first character that starts a plain token, plain characters,
/// then end of line or a terminating space (or '=' when stopping on equals)
pub proof fn lemma_unquoted_token(line: Seq<char>, s: int, i: int, j: int, f: Flags)
    requires
        0 <= s <= i < j <= line.len(),
        forall|k: int| s <= k < i ==> line[k] == ' ',
        forall|k: int| i <= k < j ==> plain(#[trigger] line[k], f),
        line[i] != '"',
        j == line.len() || line[j] == ' ' || (f.stop_on_equals && line[j] == '='),
    ensures pnv_spec(line, s, f) == Ok::<(int, Option<Seq<char>>), PErr>((j, Some(line.subrange(i, j)))),
{
    lemma_skip_spaces(line, s, i, f);
    assert(plain(line[i], f));
    assert(scan(line, i, st0(), f) == scan(line, i + 1, inarg(seq![line[i]]), f));
    lemma_plain_run(line, i + 1, j, seq![line[i]], f);
    assert(seq![line[i]] + line.subrange(i + 1, j) =~= line.subrange(i, j));
    assert(line.subrange(i, j).len() > 0);
}
/// nothing but spaces (or nothing at all) up to the end of the line: no value
pub proof fn lemma_no_token(line: Seq<char>, s: int, f: Flags)
    requires 0 <= s, forall|k: int| s <= k < line.len() ==> line[k] == ' ',
    ensures pnv_spec(line, s, f) matches Ok((_, None)),
{
    if s < line.len() {
        lemma_skip_spaces(line, s, line.len() as int, f);
    }
}
/// spaces and then a comment: no value, and the scan position jumps to the end of the line
pub proof fn lemma_comment(line: Seq<char>, s: int, i: int, f: Flags)
    requires 0 <= s <= i < line.len(), forall|k: int| s <= k < i ==> line[k] == ' ', line[i] == '#',
    ensures pnv_spec(line, s, f) == Ok::<(int, Option<Seq<char>>), PErr>((line.len() as int, None)),
{
    lemma_skip_spaces(line, s, i, f);
}

// ---- quoted arguments ----
pub open spec fn is2(p: Seq<char>, a: char, b: char) -> bool { p.len() == 2 && p[0] == a && p[1] == b }
pub open spec fn is1(p: Seq<char>, a: char) -> bool { p.len() == 1 && p[0] == a }
/// how one character of an argument may be written between double quotes
pub open spec fn piece_ok(p: Seq<char>, c: char) -> bool {
    if c == '\\' { is2(p, '\\', '\\') }
    else if c == '"' { is2(p, '\\', '"') }
    else if c == '\n' { is2(p, '\\', 'n') }
    else if c == '\r' { is2(p, '\\', 'r') || is1(p, '\r') }
    else if c == '\t' { is2(p, '\\', 't') || is1(p, '\t') }
    else { is1(p, c) }
}
/// body (the text between the quotes) renders the argument value t, piece by piece
pub open spec fn renders_q(body: Seq<char>, t: Seq<char>) -> bool
    decreases t.len()
{
    if t.len() == 0 { body.len() == 0 }
    else {
        (body.len() >= 1 && piece_ok(body.subrange(0, 1), t[0]) && renders_q(body.subrange(1, body.len() as int), t.subrange(1, t.len() as int)))
        || (body.len() >= 2 && piece_ok(body.subrange(0, 2), t[0]) && renders_q(body.subrange(2, body.len() as int), t.subrange(1, t.len() as int)))
    }
}
pub open spec fn inq(acc: Seq<char>) -> St { St { in_argument: true, using_quotes: true, in_control: false, fvp: false, arg: acc } }

pub proof fn lemma_quoted_body(line: Seq<char>, i: int, body: Seq<char>, t: Seq<char>, acc: Seq<char>)
    requires
        0 <= i, i + body.len() < line.len(),
        line.subrange(i, i + body.len()) == body,
        line[i + body.len()] == '"',
        renders_q(body, t),
    ensures
        scan(line, i, inq(acc), f_arg(false)) == (Scan::Done { index: i + body.len() + 1, st: inq(acc + t), found_end: true }),
    decreases t.len()
{
    assert forall|k: int| 0 <= k < body.len() implies line[i + k] == body[k] by {
        assert(line.subrange(i, i + body.len())[k] == line[i + k]);
    }
    if t.len() == 0 {
        assert(acc + t =~= acc);
        assert(body.len() == 0);
        assert(line[i] == '"');
    } else {
        let c = t[0];
        let t1 = t.subrange(1, t.len() as int);
        assert(acc.push(c) + t1 =~= acc + t);
        if body.len() >= 1 && piece_ok(body.subrange(0, 1), c) && renders_q(body.subrange(1, body.len() as int), t1) {
            let b1 = body.subrange(1, body.len() as int);
            assert(body.subrange(0, 1)[0] == body[0]);
            assert(line.subrange(i + 1, i + 1 + b1.len()) =~= b1);
            lemma_quoted_body(line, i + 1, b1, t1, acc.push(c));
            assert(line[i] == c);
            assert(c != '\\' && c != '"');
        } else {
            assert(body.len() >= 2 && piece_ok(body.subrange(0, 2), c) && renders_q(body.subrange(2, body.len() as int), t1));
            let b2 = body.subrange(2, body.len() as int);
            assert(body.subrange(0, 2)[0] == body[0]);
            assert(body.subrange(0, 2)[1] == body[1]);
            assert(line.subrange(i + 2, i + 2 + b2.len()) =~= b2);
            lemma_quoted_body(line, i + 2, b2, t1, acc.push(c));
            assert(line[i] == '\\');
            let st1 = St { in_control: true, fvp: false, ..inq(acc) };
            assert(scan(line, i, inq(acc), f_arg(false)) == scan(line, i + 1, st1, f_arg(false)));
            assert(scan(line, i + 1, st1, f_arg(false)) == scan(line, i + 2, inq(acc.push(c)), f_arg(false)));
        }
    }
}
/// a quoted argument: optional leading spaces, '"', a body that renders t, '"'
pub proof fn lemma_quoted_token(line: Seq<char>, s: int, i: int, body: Seq<char>, t: Seq<char>)
    requires
        0 <= s <= i, i + 1 + body.len() < line.len(),
        forall|k: int| s <= k < i ==> line[k] == ' ',
        line[i] == '"', line.subrange(i + 1, i + 1 + body.len()) == body, line[i + 1 + body.len()] == '"',
        renders_q(body, t),
    ensures pnv_spec(line, s, f_arg(false)) == Ok::<(int, Option<Seq<char>>), PErr>((i + body.len() + 2, Some(t))),
{
    lemma_skip_spaces(line, s, i, f_arg(false));
    assert(scan(line, i, st0(), f_arg(false)) == scan(line, i + 1, inq(Seq::empty()), f_arg(false)));
    lemma_quoted_body(line, i + 1, body, t, Seq::empty());
    assert(Seq::<char>::empty() + t =~= t);
}

// ---- argument lists ----
/// one written argument: sp >= 1 separating spaces, then either "body" (quoted) or the bare token
pub struct ArgR { pub sp: nat, pub quoted: bool, pub body: Seq<char>, pub val: Seq<char> }
pub open spec fn arg_char(c: char) -> bool { c != '\\' && c != ' ' && c != '#' && !crate::is_ws(c) }
pub open spec fn arg_ok(a: ArgR) -> bool {
    a.sp >= 1 && (if a.quoted { renders_q(a.body, a.val) }
                  else { a.body == a.val && a.val.len() > 0 && a.val[0] != '"' && forall|k: int| 0 <= k < a.val.len() ==> arg_char(#[trigger] a.val[k]) })
}
pub open spec fn arg_text(a: ArgR) -> Seq<char> { spaces(a.sp) + (if a.quoted { seq!['"'] + a.body + seq!['"'] } else { a.body }) }
pub open spec fn args_text(a: Seq<ArgR>) -> Seq<char> decreases a.len() {
    if a.len() == 0 { Seq::empty() } else { arg_text(a[0]) + args_text(a.drop_first()) }
}
pub open spec fn args_vals(a: Seq<ArgR>) -> Seq<Seq<char>> { a.map_values(|x: ArgR| x.val) }
/// what may follow the last argument: spaces, then nothing or (after at least one space) a # comment
pub open spec fn tail_ok(tail: Seq<char>) -> bool {
    exists|n: nat| #![trigger spaces(n)] n <= tail.len() && tail.subrange(0, n as int) == spaces(n) && (n == tail.len() || (n >= 1 && tail[n as int] == '#'))
}

pub proof fn lemma_args(line: Seq<char>, i: int, a: Seq<ArgR>, tail: Seq<char>)
    requires
        0 <= i <= line.len(),
        line.subrange(i, line.len() as int) == args_text(a) + tail,
        forall|k: int| 0 <= k < a.len() ==> arg_ok(#[trigger] a[k]),
        tail_ok(tail),
    ensures args_spec(line, i, false) == Ok::<Seq<Seq<char>>, PErr>(args_vals(a)),
    decreases a.len()
{
    let rest = line.subrange(i, line.len() as int);
    assert forall|k: int| 0 <= k < rest.len() implies line[i + k] == rest[k] by {}
    if a.len() == 0 {
        assert(rest =~= tail);
        let n = choose|n: nat| #![trigger spaces(n)] n <= tail.len() && tail.subrange(0, n as int) == spaces(n) && (n == tail.len() || (n >= 1 && tail[n as int] == '#'));
        assert forall|k: int| i <= k < i + n implies line[k] == ' ' by {
            assert(tail.subrange(0, n as int)[k - i] == tail[k - i]);
            assert(spaces(n)[k - i] == ' ');
        }
        if n == tail.len() { lemma_no_token(line, i, f_arg(false)); }
        else { lemma_comment(line, i, i + n, f_arg(false)); }
        assert(args_vals(a) =~= Seq::<Seq<char>>::empty());
    } else {
        let a0 = a[0];
        let rest_a = a.drop_first();
        let t0 = arg_text(a0);
        let after = args_text(rest_a) + tail;
        assert(rest =~= t0 + after);
        let e = i + t0.len();     // index just after the first argument's text
        assert forall|k: int| 0 <= k < t0.len() implies line[i + k] == t0[k] by { assert(rest[k] == t0[k]); }
        assert forall|k: int| i <= k < i + a0.sp implies line[k] == ' ' by { assert(t0[k - i] == spaces(a0.sp)[k - i]); }
        // what follows the first argument starts with a space, or is the end of the line
        assert forall|k: int| 0 <= k < after.len() implies line[e + k] == after[k] by { assert(rest[t0.len() + k] == after[k]); assert(line[i + (t0.len() + k)] == rest[t0.len() + k]); }
        assert(line.subrange(e, line.len() as int) =~= after);
        lemma_after_starts(rest_a, tail);
        if e < line.len() { assert(line[e] == after[0]); }
        let p = i + a0.sp;
        if a0.quoted {
            assert(t0 =~= spaces(a0.sp) + (seq!['"'] + a0.body + seq!['"']));
            assert(line[p] == t0[a0.sp as int]);
            assert forall|k: int| 0 <= k < a0.body.len() implies line[p + 1 + k] == a0.body[k] by { assert(t0[(a0.sp + 1 + k) as int] == a0.body[k]); }
            assert(line.subrange(p + 1, p + 1 + a0.body.len()) =~= a0.body);
            assert(line[p + 1 + a0.body.len()] == t0[(a0.sp + 1 + a0.body.len()) as int]);
            lemma_quoted_token(line, i, p, a0.body, a0.val);
            assert(e == p + a0.body.len() + 2);
        } else {
            assert(t0 =~= spaces(a0.sp) + a0.val);
            assert forall|k: int| p <= k < e implies plain(#[trigger] line[k], f_arg(false)) by {
                assert(line[k] == t0[k - i]); assert(t0[k - i] == a0.val[k - p]); assert(arg_char(a0.val[k - p]));
            }
            assert(t0[a0.sp as int] == a0.val[0]);
            assert(line[p] == t0[p - i]);
            assert(line[p] == a0.val[0]);
            lemma_unquoted_token(line, i, p, e, f_arg(false));
            assert forall|k: int| 0 <= k < a0.val.len() implies line[p + k] == a0.val[k] by { assert(line[p + k] == t0[p + k - i]); assert(t0[(a0.sp + k) as int] == a0.val[k]); }
            assert(line.subrange(p, e) =~= a0.val);
        }
        assert(pnv_spec(line, i, f_arg(false)) == Ok::<(int, Option<Seq<char>>), PErr>((e, Some(a0.val))));
        lemma_args(line, e, rest_a, tail);
        assert(args_vals(a) =~= seq![a0.val] + args_vals(rest_a));
    }
}
/// the text after an argument is empty or starts with a space or (only when no argument follows and the tail has no leading space... excluded) 
pub proof fn lemma_after_starts(a: Seq<ArgR>, tail: Seq<char>)
    requires forall|k: int| 0 <= k < a.len() ==> arg_ok(#[trigger] a[k]), tail_ok(tail),
    ensures ({ let after = args_text(a) + tail; after.len() == 0 || after[0] == ' ' }),
{
    if a.len() == 0 {
        assert(args_text(a) + tail =~= tail);
        let n = choose|n: nat| #![trigger spaces(n)] n <= tail.len() && tail.subrange(0, n as int) == spaces(n) && (n == tail.len() || (n >= 1 && tail[n as int] == '#'));
        if tail.len() > 0 {
            assert(n >= 1);
            assert(tail.subrange(0, n as int)[0] == tail[0]);
            assert(spaces(n)[0] == ' ');
        }
    } else {
        assert(arg_ok(a[0]));
        assert(arg_text(a[0])[0] == spaces(a[0].sp)[0]);
        assert((args_text(a) + tail)[0] == arg_text(a[0])[0]);
    }
}
