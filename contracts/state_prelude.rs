// ===== state prelude (trusted): StateValue payload abstraction and hash-collection stubs =====
// R9: `Rc<RefCell<dyn Any>>` payload of StateValue::Any -> opaque AnyBox
#[verifier::external_body]
pub struct AnyBox { x: u8 }
pub uninterp spec fn any_vars(b: AnyBox) -> Option<Map<String, String>>;
// R15: by-value iteration over a HashSet / HashMap -> a Vec holding exactly the elements (order unspecified)
#[verifier::external_body]
pub fn vset_into_vec(s: std::collections::HashSet<String>) -> (r: Vec<String>)
    ensures forall|x: String| r@.contains(x) <==> s@.contains(x), r@.no_duplicates()
{ s.into_iter().collect() }
#[verifier::external_body]
pub fn vmap_into_vec<V>(m: std::collections::HashMap<String, V>) -> (r: Vec<(String, V)>)
    ensures forall|k: String, v: V| r@.contains((k, v)) <==> (m@.contains_key(k) && m@[k] == v), r@.len() == m@.len()
{ m.into_iter().collect() }
// R9 (continued): Rc::new(RefCell::new(X)) -> any_wrap_vars(X); RC.borrow() -> any_borrow(&RC);
// V.downcast_ref::<HashMap<String, String>>() -> any_as_vars(&V)
#[verifier::external_body]
pub fn any_wrap_vars(m: std::collections::HashMap<String, String>) -> (r: AnyBox) ensures any_vars(r) == Some(m@) { unimplemented!() }
#[verifier::external_body]
pub fn any_borrow(b: &AnyBox) -> (r: &AnyBox) ensures *r == *b { unimplemented!() }
#[verifier::external_body]
pub fn any_as_vars(b: &AnyBox) -> (r: Option<&std::collections::HashMap<String, String>>)
    ensures r is Some <==> any_vars(*b) is Some, r is Some ==> r->0@ == any_vars(*b)->0
{ unimplemented!() }
// R15: iteration over a hash map (by value with any key type, or by reference) -> Vec of its entries
#[verifier::external_body]
pub fn vmap_entries<K, V>(m: std::collections::HashMap<K, V>) -> (r: Vec<(K, V)>)
    ensures
        forall|i: int| 0 <= i < r@.len() ==> m@.contains_key((#[trigger] r@[i]).0) && m@[r@[i].0] == r@[i].1,
        forall|k: K| #[trigger] m@.contains_key(k) ==> exists|i: int| 0 <= i < r@.len() && (#[trigger] r@[i]).0 == k,
        forall|i: int, j: int| 0 <= i < j < r@.len() ==> (#[trigger] r@[i]).0 != (#[trigger] r@[j]).0,
{ unimplemented!() }
#[verifier::external_body]
pub fn vmap_ref_entries<'a>(m: &'a std::collections::HashMap<String, String>) -> (r: Vec<(&'a String, &'a String)>)
    ensures
        forall|i: int| 0 <= i < r@.len() ==> m@.contains_key(*(#[trigger] r@[i]).0) && m@[*r@[i].0] == *r@[i].1,
        forall|k: String| #[trigger] m@.contains_key(k) ==> exists|i: int| 0 <= i < r@.len() && *(#[trigger] r@[i]).0 == k,
        forall|i: int, j: int| 0 <= i < j < r@.len() ==> *(#[trigger] r@[i]).0 != *(#[trigger] r@[j]).0,
{ unimplemented!() }
/// `m.keys()` of a borrowed map with string keys, as a vector (std iteration order is unspecified: any order, every key once)
#[verifier::external_body]
pub fn vmap_keys_of<'a, V>(m: &'a std::collections::HashMap<String, V>) -> (r: Vec<&'a String>)
    ensures
        forall|i: int| 0 <= i < r@.len() ==> m@.contains_key(*(#[trigger] r@[i])),
        forall|k: String| #[trigger] m@.contains_key(k) ==> exists|i: int| 0 <= i < r@.len() && *(#[trigger] r@[i]) == k,
        forall|i: int, j: int| 0 <= i < j < r@.len() ==> *(#[trigger] r@[i]) != *(#[trigger] r@[j]),
{ m.keys().collect() }
/// by-reference iteration over a borrowed string set, as a vector (any order, every element once)
#[verifier::external_body]
pub fn vset_ref_vec<'a>(m: &'a std::collections::HashSet<String>) -> (r: Vec<&'a String>)
    ensures
        forall|i: int| 0 <= i < r@.len() ==> m@.contains(*(#[trigger] r@[i])),
        forall|k: String| #[trigger] m@.contains(k) ==> exists|i: int| 0 <= i < r@.len() && *(#[trigger] r@[i]) == k,
        forall|i: int, j: int| 0 <= i < j < r@.len() ==> *(#[trigger] r@[i]) != *(#[trigger] r@[j]),
{ m.iter().collect() }
// T4: &String keys obey the key model exactly as String keys do
pub broadcast axiom fn string_ref_key_model() ensures #[trigger] vstd::std_specs::hash::obeys_key_model::<&String>();
// R11: HashMap::retain(|key, _| !key.starts_with(P)) -> v_retain_not_prefix(map, P)
#[verifier::external_body]
pub fn v_retain_not_prefix(m: &mut std::collections::HashMap<String, String>, prefix: &str)
    ensures final(m)@ =~= old(m)@.filter_keys(|k: String| !starts_with_spec(k@, prefix@))
{ m.retain(|key, _| !key.starts_with(prefix)); }

/// `m.keys()` of a borrowed string map, as a vector (std iteration order is unspecified: any order, every key once)
#[verifier::external_body]
pub fn vmap_ref_keys<'a>(m: &'a std::collections::HashMap<String, String>) -> (r: Vec<&'a String>)
    ensures
        forall|i: int| 0 <= i < r@.len() ==> m@.contains_key(*(#[trigger] r@[i])),
        forall|k: String| #[trigger] m@.contains_key(k) ==> exists|i: int| 0 <= i < r@.len() && *(#[trigger] r@[i]) == k,
        forall|i: int, j: int| 0 <= i < j < r@.len() ==> *(#[trigger] r@[i]) != *(#[trigger] r@[j]),
{ m.keys().collect() }
/// by-reference iteration over a borrowed map with string keys, as a vector of (key, value) pairs (any order)
#[verifier::external_body]
pub fn vmap_pairs_of<'a, V>(m: &'a std::collections::HashMap<String, V>) -> (r: Vec<(&'a String, &'a V)>)
    ensures forall|i: int| 0 <= i < r@.len() ==> m@.contains_key(*(#[trigger] r@[i]).0),
{ m.iter().collect() }
