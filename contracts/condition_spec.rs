// ===== condition: truthiness and the reference left-to-right evaluator (Layer A mirror) =====
pub mod cspec {
use vstd::prelude::*;
use crate::lower;

pub open spec fn ostrv(o: Option<String>) -> Option<Seq<char>> { match o { Some(s) => Some(s@), None => None } }
/// C06 statement: falsy exactly when absent, empty, '0', 'false' or 'no' (case-insensitive)
pub open spec fn truthy(v: Option<Seq<char>>) -> bool {
    match v {
        None => false,
        Some(s) => !(lower(s) == ""@ || lower(s) == "0"@ || lower(s) == "false"@ || lower(s) == "no"@),
    }
}
pub enum Tok { None, And, Or, Value }
pub struct CSt { pub searching: bool, pub start_block: int, pub counter: int, pub total: Option<bool>, pub partial: Option<bool>, pub tok: Tok }
pub open spec fn cinit() -> CSt { CSt { searching: false, start_block: 0, counter: 0, total: None, partial: None, tok: Tok::None } }
pub open spec fn ob(o: Option<bool>, d: bool) -> bool { match o { Some(b) => b, None => d } }

/// an atom with value `e` arrives in state `st`
pub open spec fn take_atom(st: CSt, e: bool, group: bool) -> Option<CSt> {
    match st.tok {
        Tok::None => Some(CSt { partial: Some(e), tok: Tok::Value, ..st }),
        Tok::And => Some(CSt { partial: Some(e), tok: Tok::Value, ..st }),
        Tok::Or => Some(CSt { partial: Some(e || ob(st.partial, false)), tok: Tok::Value, ..st }),
        Tok::Value => None,
    }
}
pub open spec fn cfinish(st: CSt) -> Result<bool, ()> {
    if st.searching { Err(()) }
    else if st.total is None && st.partial is None { Ok(false) }
    else { Ok(ob(st.partial, true) && ob(st.total, true)) }
}
pub open spec fn cscan(ts: Seq<Seq<char>>, i: int, st: CSt) -> Result<bool, ()>
    decreases ts.len(), ts.len() - i
{
    if i >= ts.len() || i < 0 { cfinish(st) }
    else {
        let a = ts[i];
        if a == "("@ {
            cscan(ts, i + 1, CSt { searching: true, start_block: if st.counter == 0 { i + 1 } else { st.start_block }, counter: st.counter + 1, ..st })
        } else if a == ")"@ {
            let c = st.counter - 1;
            if c == 0 {
                if 0 <= st.start_block <= i {
                    match ceval(ts.subrange(st.start_block, i)) {
                        Err(_) => Err(()),
                        Ok(e) => match take_atom(CSt { searching: false, start_block: 0, counter: 0, ..st }, e, true) {
                            Some(st2) => cscan(ts, i + 1, st2),
                            None => Err(()),
                        },
                    }
                } else { Err(()) }
            } else if c < 0 { Err(()) }
            else { cscan(ts, i + 1, CSt { counter: c, ..st }) }
        } else if !st.searching {
            if a == "and"@ {
                match st.tok {
                    Tok::Value => {
                        let t = ob(st.total, true) && ob(st.partial, true);
                        if !t { Ok(false) } else { cscan(ts, i + 1, CSt { tok: Tok::And, total: Some(t), partial: None, ..st }) }
                    }
                    _ => Err(()),
                }
            } else if a == "or"@ {
                match st.tok { Tok::Value => cscan(ts, i + 1, CSt { tok: Tok::Or, ..st }), _ => Err(()) }
            } else {
                match take_atom(st, truthy(Some(a)), false) { Some(st2) => cscan(ts, i + 1, st2), None => Err(()) }
            }
        } else { cscan(ts, i + 1, st) }
    }
}
pub open spec fn ceval(ts: Seq<Seq<char>>) -> Result<bool, ()>
    decreases ts.len(), ts.len() + 1
{
    if ts.len() == 0 { Ok(false) } else { cscan(ts, 0, cinit()) }
}
pub open spec fn rbool(r: Result<bool, String>) -> Result<bool, ()> { match r { Ok(b) => Ok(b), Err(_) => Err(()) } }
pub open spec fn sviews(v: Seq<String>) -> Seq<Seq<char>> { v.map_values(|s: String| s@) }
} // mod cspec
