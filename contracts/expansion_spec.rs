// ===== expansion: reference scanner for ${name} / %{name} / \ (Layer A mirror) and binding =====
pub mod xspec {
use vstd::prelude::*;
use crate::trusted::*;
use crate::duckscript::pspec::*;

pub struct XSt { pub vs: Seq<char>, pub pi: int, pub found_prefix: bool, pub key: Seq<char>, pub force_push: bool, pub single: bool }
pub open spec fn xinit() -> XSt { XSt { vs: Seq::empty(), pi: 0, found_prefix: false, key: Seq::empty(), force_push: false, single: true } }
pub open spec fn pfx(single: bool, fully: bool) -> Seq<char> {
    let a = if single { seq!['$'] } else { seq!['%'] };
    if fully { a.push('{') } else { a }
}
pub open spec fn break_key(c: char) -> bool { c == ' ' || c == '\n' || c == '\t' || c == '\r' || c == '=' }
pub open spec fn xstep(st: XSt, c: char, vars: Map<String, String>) -> XSt {
    if !st.found_prefix {
        if st.force_push {
            let vs = if c != '$' && c != '%' { st.vs.push('\\') } else { st.vs };
            XSt { vs: vs.push(c), force_push: false, ..st }
        } else if c == '\\' && st.pi == 0 { XSt { force_push: true, ..st } }
        else if st.pi == 0 && (c == '$' || c == '%') { XSt { pi: 1, single: c == '$', ..st } }
        else if st.pi == 1 && c == '{' { XSt { found_prefix: true, pi: 0, key: Seq::empty(), ..st } }
        else if st.pi > 0 { XSt { vs: (st.vs + pfx(st.single, st.found_prefix)).push(c), pi: 0, ..st } }
        else { XSt { vs: st.vs.push(c), ..st } }
    } else if c == '}' {
        let vs = if vars.contains_key(skey(st.key)) { st.vs + vars[skey(st.key)]@ } else { st.vs };
        XSt { vs, key: Seq::empty(), found_prefix: false, ..st }
    } else if break_key(c) {
        XSt { vs: (st.vs + pfx(st.single, true) + st.key).push(c), pi: 0, key: Seq::empty(), found_prefix: false, ..st }
    } else { XSt { key: st.key.push(c), ..st } }
}
pub open spec fn xscan(chars: Seq<char>, i: int, st: XSt, vars: Map<String, String>) -> XSt
    decreases chars.len() - i
{
    if i >= chars.len() || i < 0 { st } else { xscan(chars, i + 1, xstep(st, chars[i], vars), vars) }
}
/// the text after the end-of-argument fix-ups
pub open spec fn xfinish(st: XSt) -> Seq<char> {
    if st.force_push { st.vs.push('\\') }
    else if st.key.len() > 0 {
        if st.pi > 0 || st.found_prefix { st.vs + pfx(st.single, st.found_prefix) + st.key } else { st.vs + st.key }
    } else if st.pi == 1 { st.vs + pfx(st.single, false) }
    else { st.vs }
}
/// C02 statement: "only an argument WRITTEN AS %{name} may expand to several arguments"
pub open spec fn spread_form(value: Seq<char>) -> bool {
    value.len() >= 3 && value[0] == '%' && value[1] == '{' && value[value.len() - 1] == '}'
    && forall|i: int| 2 <= i < value.len() - 1 ==> value[i] != '}' && !break_key(#[trigger] value[i])
}
pub enum EV { Single(Seq<char>), Multi(Seq<Seq<char>>), None }
pub open spec fn expand_spec(value: Seq<char>, vars: Map<String, String>) -> EV {
    let vs = xfinish(xscan(value, 0, xinit(), vars));
    let spread = spread_form(value);
    if vs.len() == 0 { if !spread { EV::None } else { EV::Multi(Seq::empty()) } }
    else if !spread { EV::Single(vs) }
    else { match args_spec(vs, 0, true) { Ok(a) => if a.len() == 0 { EV::None } else { EV::Multi(a) }, Err(_) => EV::None } }
}
/// what one written argument contributes to the received argument list
pub open spec fn contrib(e: EV) -> Seq<Seq<char>> {
    match e { EV::Single(s) => seq![s], EV::Multi(v) => v, EV::None => seq![""@] }
}
pub open spec fn bind_upto(vars: Map<String, String>, args: Seq<Seq<char>>, n: int) -> Seq<Seq<char>>
    decreases n
{
    if n <= 0 { Seq::empty() } else { bind_upto(vars, args, n - 1) + contrib(expand_spec(args[n - 1], vars)) }
}
pub open spec fn bind_views(vars: Map<String, String>, args: Option<Seq<Seq<char>>>) -> Seq<Seq<char>> {
    match args { Some(a) => bind_upto(vars, a, a.len() as int), None => Seq::empty() }
}
} // mod xspec
