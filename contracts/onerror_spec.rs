// ===== on_error protocol: the last-error record (C10 statement) =====
pub mod oespec {
use vstd::prelude::*;
use crate::duckscript::types::runtime::StateValue;
use crate::duckscript::types::command::{CallIn, CallOut, CommandResult};
use crate::duckscriptsdk::sspec::*;
use crate::trusted::*;
use crate::lower;

pub open spec fn oe_key() -> String { skey(concat_spec("duckscriptsdk::command"@, "on_error"@)) }
pub open spec fn oe(state: Map<String, StateValue>) -> Map<String, StateValue> { sub_of(state, oe_key()) }
/// text of an entry of the on_error record (strings verbatim, booleans as true/false)
pub open spec fn oe_value(state: Map<String, StateValue>, key: Seq<char>) -> Option<Seq<char>> {
    let m = oe(state);
    if m.contains_key(skey(key)) {
        match m[skey(key)] { StateValue::String(s) => Some(s@), StateValue::Boolean(b) => Some(if b { "true"@ } else { "false"@ }), _ => None }
    } else { None }
}
pub use crate::duckscriptsdk::cspec::truthy;
pub open spec fn exit_on_error_on(state: Map<String, StateValue>) -> bool { truthy(oe_value(state, "exit_on_error"@)) }
pub open spec fn rest_same(inp: CallIn, out: CallOut) -> bool { out.variables == inp.variables && out.commands == inp.commands && out.env == inp.env }
pub open spec fn only_oe_changed(s0: Map<String, StateValue>, s1: Map<String, StateValue>) -> bool { s1.remove(oe_key()) =~= s0.remove(oe_key()) }
pub open spec fn out_text(res: CommandResult) -> Option<Seq<char>> { match res { CommandResult::Continue(Some(t)) => Some(t@), _ => None } }
pub open spec fn arg_or_empty(a: Seq<String>, i: int) -> Seq<char> { if a.len() > i { a[i]@ } else { ""@ } }
} // mod oespec
