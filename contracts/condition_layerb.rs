// ===== conditions, Layer B (code independent): the reference evaluator ceval computes the statement's meaning -
// a conjunction ('and') of disjunctions ('or') of atoms, a parenthesised group being an atom evaluated by the same
// rule (an empty group is falsy), wherever in the statement the group appears =====
pub mod clayerb {
use vstd::prelude::*;
use crate::duckscriptsdk::cspec::*;

/// a condition as the statement describes it: an atom is a value or a parenthesised group holding a statement;
/// a statement is a conjunction (outer sequence) of disjunctions (inner sequences) of atoms
pub enum Atom { Val(Seq<char>), Group(Seq<Seq<Atom>>) }
pub type Tokens = Seq<Seq<char>>;
pub open spec fn is_kw(v: Seq<char>) -> bool { v == "("@ || v == ")"@ || v == "and"@ || v == "or"@ }
pub open spec fn wf_atom(a: Atom) -> bool decreases a {
    match a { Atom::Val(v) => !is_kw(v), Atom::Group(s) => wf_stmt(s) }
}
pub open spec fn wf_disj(d: Seq<Atom>) -> bool decreases d {
    d.len() > 0 && (if d.len() == 1 { wf_atom(d[0]) } else { wf_disj(d.drop_last()) && wf_atom(d.last()) })
}
/// the empty statement is allowed (an empty group)
pub open spec fn wf_stmt(s: Seq<Seq<Atom>>) -> bool decreases s {
    if s.len() == 0 { true } else if s.len() == 1 { wf_disj(s[0]) } else { wf_stmt(s.drop_last()) && wf_disj(s.last()) }
}
// ---- how it is written ----
pub open spec fn render_atom(a: Atom) -> Tokens decreases a {
    match a { Atom::Val(v) => seq![v], Atom::Group(s) => seq!["("@] + render_stmt(s) + seq![")"@] }
}
pub open spec fn render_disj(d: Seq<Atom>) -> Tokens decreases d {
    if d.len() == 0 { Seq::empty() } else if d.len() == 1 { render_atom(d[0]) } else { render_disj(d.drop_last()) + seq!["or"@] + render_atom(d.last()) }
}
pub open spec fn render_stmt(s: Seq<Seq<Atom>>) -> Tokens decreases s {
    if s.len() == 0 { Seq::empty() } else if s.len() == 1 { render_disj(s[0]) } else { render_stmt(s.drop_last()) + seq!["and"@] + render_disj(s.last()) }
}
// ---- what it means (C06 statement) ----
pub open spec fn val_atom(a: Atom) -> bool decreases a {
    match a { Atom::Val(v) => truthy(Some(v)), Atom::Group(s) => val_stmt(s) }
}
pub open spec fn val_disj(d: Seq<Atom>) -> bool decreases d {
    if d.len() == 0 { false } else if d.len() == 1 { val_atom(d[0]) } else { val_disj(d.drop_last()) || val_atom(d.last()) }
}
/// an empty group is falsy
pub open spec fn val_stmt(s: Seq<Seq<Atom>>) -> bool decreases s {
    if s.len() == 0 { false } else if s.len() == 1 { val_disj(s[0]) } else { val_stmt(s.drop_last()) && val_disj(s.last()) }
}

pub proof fn lemma_kw_distinct()
    ensures "("@ != ")"@, "("@ != "and"@, "("@ != "or"@, ")"@ != "and"@, ")"@ != "or"@, "and"@ != "or"@,
{
    reveal_strlit("("); reveal_strlit(")"); reveal_strlit("and"); reveal_strlit("or");
    assert("("@.len() == 1 && ")"@.len() == 1 && "and"@.len() == 3 && "or"@.len() == 2);
    assert("("@[0] == '(' && ")"@[0] == ')');
}
/// the tokens ts[i .. i+w.len()) are w
pub open spec fn at(ts: Tokens, i: int, w: Tokens) -> bool { 0 <= i && i + w.len() <= ts.len() && ts.subrange(i, i + w.len()) =~= w }
pub proof fn lemma_at_split(ts: Tokens, i: int, a: Tokens, b: Tokens)
    requires at(ts, i, a + b)
    ensures at(ts, i, a), at(ts, i + a.len(), b)
{
    let w = a + b;
    assert forall|k: int| 0 <= k < a.len() implies ts.subrange(i, i + a.len())[k] == a[k] by { assert(ts.subrange(i, i + w.len())[k] == w[k]); }
    assert forall|k: int| 0 <= k < b.len() implies ts.subrange(i + a.len(), i + a.len() + b.len())[k] == b[k] by { assert(ts.subrange(i, i + w.len())[a.len() + k] == w[a.len() + k]); }
}
pub proof fn lemma_at_one(ts: Tokens, i: int, t: Seq<char>)
    requires at(ts, i, seq![t])
    ensures 0 <= i < ts.len(), ts[i] == t
{
    assert(ts.subrange(i, i + 1)[0] == seq![t][0]);
}

// ---- skipping: while the scanner looks for the end of a group (searching, counter >= 1) a well-formed rendering
// ---- is passed over without any effect but on the position
pub open spec fn skipping(st: CSt) -> bool { st.searching && st.counter >= 1 }
pub proof fn lemma_skip_atom(ts: Tokens, i: int, a: Atom, st: CSt)
    requires wf_atom(a), at(ts, i, render_atom(a)), skipping(st),
    ensures cscan(ts, i, st) == cscan(ts, i + render_atom(a).len(), st)
    decreases a, 0int
{
    lemma_kw_distinct();
    match a {
        Atom::Val(v) => { lemma_at_one(ts, i, v); }
        Atom::Group(s) => {
            let r = render_stmt(s);
            lemma_at_split(ts, i, seq!["("@] + r, seq![")"@]);
            lemma_at_split(ts, i, seq!["("@], r);
            lemma_at_one(ts, i, "("@);
            lemma_at_one(ts, i + 1 + r.len(), ")"@);
            let st1 = CSt { searching: true, start_block: if st.counter == 0 { i + 1 } else { st.start_block }, counter: st.counter + 1, ..st };
            assert(st1 == CSt { counter: st.counter + 1, ..st });
            lemma_skip_stmt(ts, i + 1, s, st1);
        }
    }
}
pub proof fn lemma_skip_disj(ts: Tokens, i: int, d: Seq<Atom>, st: CSt)
    requires wf_disj(d), at(ts, i, render_disj(d)), skipping(st),
    ensures cscan(ts, i, st) == cscan(ts, i + render_disj(d).len(), st)
    decreases d, 1int
{
    lemma_kw_distinct();
    if d.len() == 1 { lemma_skip_atom(ts, i, d[0], st); }
    else {
        let init = render_disj(d.drop_last());
        lemma_at_split(ts, i, init + seq!["or"@], render_atom(d.last()));
        lemma_at_split(ts, i, init, seq!["or"@]);
        lemma_skip_disj(ts, i, d.drop_last(), st);
        lemma_at_one(ts, i + init.len(), "or"@);
        lemma_skip_atom(ts, i + init.len() + 1, d.last(), st);
    }
}
pub proof fn lemma_skip_stmt(ts: Tokens, i: int, s: Seq<Seq<Atom>>, st: CSt)
    requires wf_stmt(s), at(ts, i, render_stmt(s)), skipping(st),
    ensures cscan(ts, i, st) == cscan(ts, i + render_stmt(s).len(), st)
    decreases s, 2int
{
    lemma_kw_distinct();
    if s.len() == 0 { }
    else if s.len() == 1 { lemma_skip_disj(ts, i, s[0], st); }
    else {
        let init = render_stmt(s.drop_last());
        lemma_at_split(ts, i, init + seq!["and"@], render_disj(s.last()));
        lemma_at_split(ts, i, init, seq!["and"@]);
        lemma_skip_stmt(ts, i, s.drop_last(), st);
        lemma_at_one(ts, i + init.len(), "and"@);
        lemma_skip_disj(ts, i + init.len() + 1, s.last(), st);
    }
}
// ---- the scan proper: outside any group ----
pub open spec fn plain(st: CSt) -> bool { !st.searching && st.counter == 0 && st.start_block == 0 }
pub proof fn lemma_render_nonempty_atom(a: Atom) ensures render_atom(a).len() > 0 {
    match a { Atom::Val(v) => {}, Atom::Group(s) => {} }
}
pub proof fn lemma_render_nonempty_disj(d: Seq<Atom>) requires d.len() > 0 ensures render_disj(d).len() > 0 decreases d {
    if d.len() == 1 { lemma_render_nonempty_atom(d[0]); } else { lemma_render_nonempty_atom(d.last()); }
}
pub proof fn lemma_render_nonempty_stmt(s: Seq<Seq<Atom>>) requires s.len() > 0, wf_stmt(s) ensures render_stmt(s).len() > 0 decreases s {
    if s.len() == 1 { assert(wf_disj(s[0])); lemma_render_nonempty_disj(s[0]); } else { assert(wf_disj(s.last())); lemma_render_nonempty_disj(s.last()); }
}

/// an atom (a value, or a whole parenthesised group) contributes its value; a group is evaluated by the same rule
pub proof fn lemma_atom(ts: Tokens, i: int, a: Atom, st: CSt)
    requires wf_atom(a), at(ts, i, render_atom(a)), plain(st), !(st.tok is Value),
    ensures take_atom(st, val_atom(a), false) is Some,
        cscan(ts, i, st) == cscan(ts, i + render_atom(a).len(), take_atom(st, val_atom(a), false)->0)
    decreases a, 0int
{
    lemma_kw_distinct();
    match a {
        Atom::Val(v) => { lemma_at_one(ts, i, v); }
        Atom::Group(g) => {
            let r = render_stmt(g);
            lemma_at_split(ts, i, seq!["("@] + r, seq![")"@]);
            lemma_at_split(ts, i, seq!["("@], r);
            lemma_at_one(ts, i, "("@);
            let j = i + 1 + r.len();
            lemma_at_one(ts, j, ")"@);
            let st1 = CSt { searching: true, start_block: i + 1, counter: 1, ..st };
            assert(cscan(ts, i, st) == cscan(ts, i + 1, st1));
            lemma_skip_stmt(ts, i + 1, g, st1);
            assert(ts.subrange(i + 1, j) =~= r);
            thm_cond(g);
            assert(ceval(ts.subrange(i + 1, j)) == Ok::<bool, ()>(val_stmt(g)));
            assert(CSt { searching: false, start_block: 0, counter: 0, ..st1 } == st);
        }
    }
}
/// a disjunction: 'or' accumulates into the partial value
pub proof fn lemma_disj(ts: Tokens, i: int, d: Seq<Atom>, st: CSt)
    requires wf_disj(d), at(ts, i, render_disj(d)), plain(st), st.tok is None || st.tok is And,
    ensures cscan(ts, i, st) == cscan(ts, i + render_disj(d).len(), CSt { partial: Some(val_disj(d)), tok: Tok::Value, ..st })
    decreases d, 1int
{
    lemma_kw_distinct();
    if d.len() == 1 { lemma_atom(ts, i, d[0], st); }
    else {
        let init = render_disj(d.drop_last());
        lemma_at_split(ts, i, init + seq!["or"@], render_atom(d.last()));
        lemma_at_split(ts, i, init, seq!["or"@]);
        lemma_disj(ts, i, d.drop_last(), st);
        let s1 = CSt { partial: Some(val_disj(d.drop_last())), tok: Tok::Value, ..st };
        lemma_at_one(ts, i + init.len(), "or"@);
        let s2 = CSt { tok: Tok::Or, ..s1 };
        assert(cscan(ts, i + init.len(), s1) == cscan(ts, i + init.len() + 1, s2));
        lemma_atom(ts, i + init.len() + 1, d.last(), s2);
    }
}
/// a statement: 'and' closes a disjunction; a false disjunction before an 'and' decides the whole statement
pub proof fn lemma_stmt(ts: Tokens, i: int, s: Seq<Seq<Atom>>, st: CSt)
    requires wf_stmt(s), s.len() > 0, at(ts, i, render_stmt(s)), plain(st), st.partial is None, st.tok is None || st.tok is And, ob(st.total, true),
    ensures cscan(ts, i, st) == (
        if s.len() > 1 && !val_stmt(s.drop_last()) { Ok::<bool, ()>(false) }
        else { cscan(ts, i + render_stmt(s).len(), CSt { total: if s.len() == 1 { st.total } else { Some(true) }, partial: Some(val_disj(s.last())), tok: Tok::Value, ..st }) })
    decreases s, 2int
{
    lemma_kw_distinct();
    if s.len() == 1 { lemma_disj(ts, i, s[0], st); }
    else {
        let sinit = s.drop_last();
        let init = render_stmt(sinit);
        lemma_at_split(ts, i, init + seq!["and"@], render_disj(s.last()));
        lemma_at_split(ts, i, init, seq!["and"@]);
        lemma_stmt(ts, i, sinit, st);
        let j = i + init.len();
        lemma_at_one(ts, j, "and"@);
        if sinit.len() > 1 && !val_stmt(sinit.drop_last()) {
            // decided earlier
        } else {
            let s1 = CSt { total: if sinit.len() == 1 { st.total } else { Some(true) }, partial: Some(val_disj(sinit.last())), tok: Tok::Value, ..st };
            let t = ob(s1.total, true) && ob(s1.partial, true);
            assert(t == val_disj(sinit.last()));
            assert(val_stmt(sinit) == (if sinit.len() == 1 { val_disj(sinit[0]) } else { val_stmt(sinit.drop_last()) && val_disj(sinit.last()) }));
            if t {
                let s2 = CSt { tok: Tok::And, total: Some(true), partial: None, ..s1 };
                assert(cscan(ts, j, s1) == cscan(ts, j + 1, s2));
                lemma_disj(ts, j + 1, s.last(), s2);
            } else {
                assert(cscan(ts, j, s1) == Ok::<bool, ()>(false));
            }
        }
    }
}
/// C06: the value of a written condition is the conjunction of the disjunctions of its atoms, a parenthesised
/// group being an atom evaluated by the same rule (an empty group is falsy), wherever the group appears
pub proof fn thm_cond(s: Seq<Seq<Atom>>)
    requires wf_stmt(s)
    ensures ceval(render_stmt(s)) == Ok::<bool, ()>(val_stmt(s))
    decreases s, 3int
{
    if s.len() > 0 {
        let ts = render_stmt(s);
        lemma_render_nonempty_stmt(s);
        assert(ts.subrange(0, ts.len() as int) =~= ts);
        lemma_stmt(ts, 0, s, cinit());
        if s.len() > 1 && !val_stmt(s.drop_last()) { }
        else {
            let fin = CSt { total: if s.len() == 1 { cinit().total } else { Some(true) }, partial: Some(val_disj(s.last())), tok: Tok::Value, ..cinit() };
            assert(cscan(ts, ts.len() as int, fin) == cfinish(fin));
        }
    }
}

} // mod clayerb
