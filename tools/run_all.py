#!/usr/bin/env python3
"""Runs every registered check (quick tier by default) on /repo, in parallel, and validates the
evidence files against the schema. usage: run_all.py [quick|thorough]"""
import concurrent.futures, json, os, subprocess, sys, time
V = os.path.dirname(os.path.dirname(os.path.abspath(__file__)))
tier = sys.argv[1] if len(sys.argv) > 1 else 'quick'
m = json.load(open(os.path.join(V, 'MANIFEST.json')))
def run(c):
    t0 = time.time()
    cmd = c['quick_cmd'] if tier == 'quick' else c['thorough_cmd']
    p = subprocess.run(cmd, shell=True, cwd=V, stdout=subprocess.PIPE, stderr=subprocess.STDOUT, text=True)
    return c['property_id'], p.returncode, p.stdout.strip().split('\n')[-3:], time.time() - t0
bad = 0
with concurrent.futures.ThreadPoolExecutor(max_workers=6) as ex:
    for pid, rc, tail, dt in ex.map(run, m['checks']):
        print('%s rc=%d %.1fs  %s' % (pid, rc, dt, ' | '.join(tail)))
        bad += rc != 0
try:
    sys.path.insert(0, '/opt/veriftools/pyvenv/lib/python3.11/site-packages')
    import jsonschema
    sch = json.load(open('/root/.vp/EVIDENCE.schema.json'))
    for c in m['checks']:
        ev = json.load(open(c['evidence_file']))
        jsonschema.validate(ev, sch)
        if ev['level'] != c['level_claimed']['category']:
            print('LEVEL MISMATCH', c['property_id'], ev['level'], c['level_claimed']['category']); bad += 1
    jsonschema.validate(m, json.load(open('/root/.vp/MANIFEST.schema.json')))
    print('evidence + manifest schema: ok')
except ImportError:
    print('jsonschema not importable here; run with python3-vt')
sys.exit(1 if bad else 0)
