#!/usr/bin/env python3
"""Stub audit: a unit that calls a function verified in ANOTHER unit sees only a stub (external_body) carrying that
function's contract. The stub text is written by hand; this tool checks mechanically that every stub marked
`// @proved-in <unit> <fn>` claims no more than what <unit> proves: next to the stub it generates

    #[verifier::external_body] fn F__proven(<same parameters>) -> (..)  <the contract of F taken from <unit>'s template>
    fn F__audit(<same parameters>) -> (..)  <the stub's contract>  { F__proven(<arguments>) }

and lets Verus verify F__audit (the stub's precondition must imply the proven one, the proven postcondition must
imply the stub's). Result per stub: implied / NOT implied / not checkable (the proven contract does not type-check in
the importing unit, e.g. it mentions specification functions that unit does not include).
usage: audit_stubs.py [unit ...]   -> build/stub_audit.json, exit 0 (all implied or not checkable), 1 (some stub NOT implied)"""
import concurrent.futures, json, os, re, subprocess, sys
V = os.path.dirname(os.path.dirname(os.path.abspath(__file__)))
sys.path.insert(0, os.path.join(V, 'tools'))
import extract
REPO = os.environ.get('VERIF_REPO', '/repo')
CONF = json.load(open(os.path.join(V, 'tools', 'properties_conf.json')))
ALL_UNITS = sorted(set(u for p in CONF['properties'].values() for u in p.get('units', [])))
_gen_cache = {}


def gen(unit):
    if unit not in _gen_cache:
        _gen_cache[unit] = extract.Gen(REPO, unit, os.path.join(V, 'units', unit + '.vrs')).run()
    return _gen_cache[unit]


def split_params(s):
    out, depth, cur = [], 0, ''
    for ch in s:
        if ch in '(<[{':
            depth += 1
        elif ch in ')>]}':
            depth -= 1
        if ch == ',' and depth == 0:
            out.append(cur)
            cur = ''
        else:
            cur += ch
    if cur.strip():
        out.append(cur)
    return [x.strip() for x in out if x.strip()]


def parse_stub(lines, i):
    """lines[i] is the marker. Returns dict(name, header(up to params close), params, ret (name,type) or None, spec text, end index)"""
    j = i + 1
    while 'fn ' not in lines[j]:
        j += 1
    text = '\n'.join(lines[j:j + 60])
    m = re.search(r'\bfn\s+(\w+)\s*(<[^(]*>)?\s*\(', text)
    name, generics = m.group(1), m.group(2) or ''
    p0 = m.end() - 1
    depth, k = 0, p0
    while True:
        if text[k] == '(':
            depth += 1
        elif text[k] == ')':
            depth -= 1
            if depth == 0:
                break
        k += 1
    params = text[p0 + 1:k]
    rest = text[k + 1:]
    body = re.search(r'\{\s*unimplemented!\(\)\s*\}', rest)
    head_spec = rest[:body.start()]
    ret = None
    spec = head_spec
    mr = re.match(r'\s*->\s*\(\s*(\w+)\s*:\s*', head_spec)
    if mr:
        # return type up to the matching ')'
        q = mr.end()
        d = 1
        while d > 0:
            if head_spec[q] == '(':
                d += 1
            elif head_spec[q] == ')':
                d -= 1
            q += 1
        ret = (mr.group(1), head_spec[mr.end():q - 1].strip())
        spec = head_spec[q:]
    else:
        mr2 = re.match(r'\s*->\s*([^\n{]+?)\s*(\n|requires|ensures|$)', head_spec)
        if mr2 and mr2.group(1).strip():
            ret = ('__r', mr2.group(1).strip())
            spec = head_spec[mr2.end(1):]
    end_line = j + text[:k + 1 + body.end()].count('\n')
    # a where clause sits between the return type and the contract
    where = ''
    mw = re.match(r'\s*(where\b.*?)(?=^\s*(requires|ensures)\b)', spec, re.S | re.M)
    if mw:
        where = mw.group(1).strip()
        spec = spec[mw.end(1):]
    return dict(name=name, generics=generics, params=params, ret=ret, spec=spec.strip('\n'), end=end_line, where=where)


def module_of(outl, name):
    """crate path of the module that defines spec fn / fn / struct `name` in the generated file"""
    from rustlex import code_mask
    mask = code_mask('\n'.join(outl)).split('\n')
    stack = []
    depth = 0
    for code in mask:
        mm = re.match(r'\s*(?:pub(?:\([a-z]+\))?\s+)?mod\s+(\w+)\s*\{', code)
        if mm:
            stack.append((mm.group(1), depth))
        if re.search(r'\b(?:fn|struct|enum)\s+%s\b' % re.escape(name), code) and not re.match(r'\s*use ', code):
            if stack:
                return 'crate::' + '::'.join(n for n, _ in stack)
            return 'crate'
        depth += code.count('{') - code.count('}')
        while stack and depth <= stack[-1][1]:
            stack.pop()
    return None


def audit_unit(unit):
    g = gen(unit)
    lines = [t for t, _ in g.out]
    res = []
    inserts = []    # (after_line_index, text, stubinfo)
    for i, l in enumerate(lines):
        m = re.match(r'\s*// @proved-in (\w+) (\S+)', l)
        if not m:
            continue
        punit, pname = m.group(1), m.group(2)
        info = dict(unit=unit, proved_in=punit, function=pname, line=i + 1)
        try:
            st = parse_stub(lines, i)
        except Exception as e:
            info['result'] = 'not checkable'
            info['why'] = 'stub could not be parsed: %s' % e
            res.append(info)
            continue
        try:
            sp = gen(punit).specs.get(pname)
        except Exception as e:
            sp = None
        if not sp:
            info['result'] = 'not checkable'
            info['why'] = 'no contract named %s in unit %s' % (pname, punit)
            res.append(info)
            continue
        proven = [re.sub(r'//.*$', '', x).rstrip() for x in sp['sig']]
        # a decreases clause is about the body, not about callers
        keep, skipping = [], False
        for x in proven:
            if re.match(r'\s*decreases\b', x):
                skipping = True
                continue
            if skipping and re.match(r'\s*(requires|ensures)\b', x):
                skipping = False
            if not skipping:
                keep.append(x)
        proven = '\n'.join(keep)
        pret = sp['ret'] or '__r'
        names = []
        for prm in split_params(st['params']):
            nm = re.sub(r'^(mut\s+)', '', prm.split(':')[0].strip())
            names.append(nm)
        rt_p = (' -> (%s: %s)' % (pret, st['ret'][1])) if st['ret'] else ''
        rt_s = (' -> (%s: %s)' % (st['ret'][0], st['ret'][1])) if st['ret'] else ''
        tag = '%s__%d' % (st['name'], i)
        info['tag'] = tag
        if not re.search(r'\b(requires|ensures)\b', st['spec']):
            info['result'] = 'implied'
            info['why'] = 'the stub claims nothing'
            res.append(info)
            continue
        info['uses'] = []
        info['parts'] = dict(proven_hdr='fn %s__proven%s(%s)%s %s' % (tag, st['generics'], st['params'], rt_p, st['where']), proven=proven,
                             audit_hdr='fn %s__audit%s(%s)%s %s' % (tag, st['generics'], st['params'], rt_s, st['where']), spec=st['spec'],
                             call='{ %s__proven(%s) }' % (tag, ', '.join(names)))
        inserts.append((st['end'], None, info))
    if not inserts:
        return res
    work = os.path.join('/tmp/vx/audit', unit)
    os.makedirs(work, exist_ok=True)
    active = list(inserts)
    for attempt in range(len(inserts) + 8):
        out = list(lines)
        for (after, txt, info) in sorted(active, key=lambda x: -x[0]):
            pt = info['parts']
            txt = '\n'.join(['// ---- stub audit (generated by tools/audit_stubs.py) ----', 'mod audit__%s {' % info['tag'], 'use vstd::prelude::*;', 'use super::*;'] +
                            ['use %s::*;' % u for u in info['uses']] +
                            ['#[verifier::external_body]', pt['proven_hdr'], pt['proven'], '{ unimplemented!() }', pt['audit_hdr'], pt['spec'], pt['call'], '}'])
            out[after + 1:after + 1] = txt.split('\n')
        rs = os.path.join(work, unit + '_audit.rs')
        open(rs, 'w').write('\n'.join(out) + '\n')
        p = subprocess.run(['verus', os.path.basename(rs), '--rlimit', '40', '--multiple-errors', '40', '--error-format=json'], cwd=work, stdout=subprocess.PIPE, stderr=subprocess.PIPE, text=True)
        diags = []
        for l in p.stderr.split('\n'):
            if l.startswith('{'):
                try:
                    d = json.loads(l)
                except Exception:
                    continue
                if d.get('level') == 'error' and d.get('spans'):
                    diags.append(d)
        text = '\n'.join(out)
        outl = text.split('\n')

        def owner(line_no):
            # which audit block contains this generated line
            for (after, txt, info) in active:
                tag = info['tag']
                for k in range(max(0, line_no - 80), min(len(outl), line_no + 1)):
                    pass
            # search backwards for the nearest '__proven' / '__audit' fn header
            for k in range(line_no - 1, max(-1, line_no - 120), -1):
                mm = re.match(r'fn (\w+__\d+)__(proven|audit)', outl[k])
                if mm:
                    return mm.group(1), mm.group(2)
                if outl[k].startswith('// ---- stub audit'):
                    break
            return None, None
        compile_err = [d for d in diags if d.get('code') or 'verification' not in json.dumps(d)[:0]]
        verif_fail, comp_fail = {}, {}
        for d in diags:
            sp0 = ([x for x in d['spans'] if x.get('is_primary')] or d['spans'])[0]
            tag, kind = owner(sp0['line_start'])
            is_verif = d.get('code') is None and ('postcondition' in d['message'] or 'precondition' in d['message'] or 'assertion' in d['message'])
            if tag:
                (verif_fail if is_verif else comp_fail).setdefault(tag, []).append(d['message'][:200])
        if comp_fail:
            # a name of the proving unit's context that is not imported where the stub lives: import its module and retry
            progressed = False
            for (after, txt, info) in list(active):
                if info['tag'] in comp_fail:
                    for msg in comp_fail[info['tag']]:
                        mm = re.search(r'cannot find (?:function|value|type|struct|macro)[^`]*`(\w+)`', msg)
                        if mm:
                            pth = module_of(outl, mm.group(1))
                            if pth and pth not in info['uses']:
                                info['uses'].append(pth)
                                progressed = True
            if progressed and attempt < len(inserts) + 6:
                continue
            # drop the blocks that do not type-check and try again
            for (after, txt, info) in list(active):
                if info['tag'] in comp_fail:
                    info['result'] = 'not checkable'
                    info['why'] = comp_fail[info['tag']][0]
                    res.append(info)
                    active.remove((after, txt, info))
            continue
        if diags and not verif_fail and not comp_fail and 'verification results' not in p.stdout:
            for (after, txt, info) in active:
                info['result'] = 'not checkable'
                info['why'] = 'audit file rejected: ' + diags[0]['message'][:200]
                res.append(info)
            return res
        for (after, txt, info) in active:
            if info['tag'] in verif_fail:
                info['result'] = 'NOT implied'
                info['why'] = verif_fail[info['tag']][0]
            else:
                info['result'] = 'implied'
            res.append(info)
        return res
    return res


def main():
    units = sys.argv[1:] or ALL_UNITS
    allres = []
    with concurrent.futures.ThreadPoolExecutor(max_workers=6) as ex:
        for r in ex.map(audit_unit, units):
            allres += r
    for r in allres:
        r.pop('tag', None)
        r.pop('parts', None)
        r.pop('uses', None)
    os.makedirs(os.path.join(V, 'build'), exist_ok=True)
    json.dump(allres, open(os.path.join(V, 'build', 'stub_audit.json'), 'w'), indent=1)
    n = dict(implied=0)
    for r in allres:
        n[r['result']] = n.get(r['result'], 0) + 1
        if r['result'] != 'implied':
            print('%-13s %-10s <- %-10s %-36s %s' % (r['result'], r['unit'], r['proved_in'], r['function'], r.get('why', '')[:150]))
    print('stub audit: %d stubs; %s' % (len(allres), ', '.join('%s: %d' % kv for kv in sorted(n.items()))))
    return 1 if n.get('NOT implied') else 0


if __name__ == '__main__':
    sys.exit(main())
