#!/usr/bin/env python3
"""Rewrites the section of DESIGN.md between <!-- SEEDS:BEGIN --> and <!-- SEEDS:END --> from seeded/*/meta.json."""
import json, os, re
V = '/verif'
rows = []
n = det = contract = finder_only = 0
for name in sorted(os.listdir(os.path.join(V, 'seeded'))):
    mp = os.path.join(V, 'seeded', name, 'meta.json')
    if not os.path.exists(mp):
        continue
    m = json.load(open(mp))
    if not m.get('confirmed'):
        continue
    n += 1
    labs = []
    by_contract = False
    for pid, d in m.get('detection', {}).items():
        for l in d['lines']:
            if not l.startswith('VIOLATION'):
                continue
            ob = l.split('obligation=')[-1].strip()
            noinput = ob.endswith('no-failing-input-found')
            ob = ob.replace(' no-failing-input-found', '')
            if ob == 'undecided-contracts-replayed-counterexample':
                t = 'contracts undecided (anchor / construct lost) -> finder counterexample'
            elif ob == 'none-failed-but-sampled-replay-on-real-code-found-a-counterexample':
                t = 'all obligations pass -> finder counterexample'
            else:
                t = '`%s`%s' % (ob, ' (no failing input found)' if noinput else ' + counterexample')
                by_contract = True
            x = '%s: %s' % (pid, t)
            if x not in labs:
                labs.append(x)
    if m.get('detected_by'):
        det += 1
        if by_contract:
            contract += 1
        else:
            finder_only += 1
    what = ''
    notes = os.path.join(V, 'seeded', name, 'NOTES.md')
    rows.append('| %s | %s | %s |' % (name, ','.join(m['properties']), '; '.join(labs[:2]) if labs else '**MISSED**'))
text = ['<!-- SEEDS:BEGIN -->',
        '%d confirmed changes (demo passes without / fails with the patch, baseline suite still green); %d detected: %d by a failed '
        'named obligation, %d only by a replayed finder counterexample.' % (n, det, contract, finder_only), '',
        '| seeded change | properties | caught by (quick tier) |', '|---|---|---|'] + rows + ['<!-- SEEDS:END -->']
p = os.path.join(V, 'DESIGN.md')
s = open(p).read()
if '<!-- SEEDS:BEGIN -->' in s:
    s = re.sub(r'<!-- SEEDS:BEGIN -->.*?<!-- SEEDS:END -->', lambda _m: '\n'.join(text), s, flags=re.S)
    open(p, 'w').write(s)
    print('updated: %d seeds, %d detected' % (n, det))
else:
    print('\n'.join(text))
