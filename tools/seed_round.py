#!/usr/bin/env python3
"""Confirms all seeds of a round in parallel. usage: seed_round.py <tag e.g. r9> [jobs]
Looks at /tmp/seed_<tag>C??/seed_out/{.,A,B}/patch.diff, names each seed <pid>-<slug of the NOTES.md title>, runs
tools/seed_confirm.py for it (own scratch worktree per job) and prints one line per seed."""
import concurrent.futures, glob, json, os, re, subprocess, sys
tag = sys.argv[1]
jobs = int(sys.argv[2]) if len(sys.argv) > 2 else 3
V = '/verif'
crate = {'C01': 'duckscript', 'C02': 'duckscript', 'C03': 'duckscript', 'C08': 'duckscript', 'C13': 'duckscript', 'C14': 'duckscript', 'C20': 'duckscript_cli'}
also = {'C09': 'C04', 'C01': 'C08', 'C08': 'C01', 'C13': 'C03', 'C06': 'C04', 'C10': 'C03', 'C11': 'C19', 'C19': 'C12', 'C05': 'C04', 'C20': 'C03', 'C04': 'C09', 'C07': 'C04'}
def slug(text):
    t = re.sub(r'[^a-z0-9 -]', ' ', text.lower())
    w = [x for x in t.split() if x not in ('seed', 'seeded', 'defect', 'notes', 'a', 'b', 'the', 'for', 'of', 'property', 'r9', 'r10', 'r11', '-', '--', '---') and not re.match(r'c\d\d$', x)]
    return '-'.join(w[:7])[:60] or 'change'
todo = []
for wt in sorted(glob.glob('/tmp/seed_%sC??' % tag)):
    pid = wt[-3:]
    for sub in ('A', 'B', '.'):
        d = os.path.normpath(os.path.join(wt, 'seed_out', sub))
        if not os.path.exists(os.path.join(d, 'patch.diff')) or os.path.getsize(os.path.join(d, 'patch.diff')) == 0:
            continue
        title = ''
        np_ = os.path.join(d, 'NOTES.md')
        if os.path.exists(np_):
            for l in open(np_):
                if l.strip():
                    title = l.strip()
                    break
        name = '%s-%s' % (pid, slug(title))
        k = 2
        base = name
        while os.path.exists(os.path.join(V, 'seeded', name)) or name in [t[0] for t in todo]:
            name = '%s-%d' % (base, k)
            k += 1
        props = pid + (',' + also[pid] if pid in also else '')
        todo.append((name, d, 'duckscriptsdk' if pid == 'C15' else crate.get(pid, 'duckscriptsdk'), props))
def run(job):
    i, (name, d, cr, props) = job
    env = dict(os.environ, WT_SEED='/tmp/wt_seed_%d' % (i % jobs))
    return name, subprocess.run(['python3', os.path.join(V, 'tools', 'seed_confirm.py'), name, d, cr, props], cwd=V, env=env, stdout=subprocess.PIPE, stderr=subprocess.STDOUT, text=True).stdout
# jobs run in `jobs` lanes; each lane has its own scratch worktree, so a lane runs its seeds one after the other
lanes = [[] for _ in range(jobs)]
for i, t in enumerate(todo):
    lanes[i % jobs].append((i, t))
def lane(items):
    out = []
    for it in items:
        name, o = run(it)
        m = re.search(r'"confirmed": (\w+),\s*"baseline_ok": (\w+),\s*"detected_by": \[([^\]]*)\]', o)
        line = '%-70s %s' % (name, ('confirmed=%s baseline=%s detected_by=%s' % (m.group(1), m.group(2), re.sub(r'\s+', '', m.group(3)))) if m else 'FAILED: ' + o[-200:].replace('\n', ' '))
        print(line, flush=True)
        out.append(line)
    return out
with concurrent.futures.ThreadPoolExecutor(max_workers=jobs) as ex:
    list(ex.map(lane, lanes))
print('ROUNDDONE', len(todo))
