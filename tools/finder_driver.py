"""Builds and runs the finder crate (real code, path deps on the tree being checked)."""
import fcntl
import hashlib
import json
import os
import shutil
import subprocess
import tempfile
import time

VERIF = os.path.dirname(os.path.dirname(os.path.abspath(__file__)))
TARGET = os.path.join(VERIF, 'build', 'finder-target')
SUPPORTED = {'C15', 'C06', 'C11', 'C04', 'C05', 'C16', 'C01', 'C08', 'C03', 'C13', 'C02', 'C09', 'C12', 'C19', 'C14', 'C20', 'C10', 'C07'}


def _env():
    e = dict(os.environ)
    e['CARGO_NET_OFFLINE'] = 'true'
    e['CARGO_TARGET_DIR'] = TARGET
    e.pop('RUSTUP_TOOLCHAIN', None)
    return e


def _rid(repo):
    return hashlib.sha1(os.path.realpath(repo).encode()).hexdigest()[:12]


def build(repo):
    """returns (path to a per-tree copy of the finder binary | None, error text); builds are serialised by a
    file lock because the cargo target directory is shared between the trees being checked"""
    _DUCK['repo'] = repo
    os.makedirs(os.path.join(VERIF, 'build'), exist_ok=True)
    src = os.path.join(VERIF, 'build', 'finder-src-%s' % _rid(repo))
    os.makedirs(os.path.join(src, 'src'), exist_ok=True)
    with open(os.path.join(VERIF, 'build', 'finder.lock'), 'w') as lk:
        fcntl.flock(lk, fcntl.LOCK_EX)
        for f in os.listdir(os.path.join(VERIF, 'finder', 'src')):
            dst = os.path.join(src, 'src', f)
            new = open(os.path.join(VERIF, 'finder', 'src', f)).read()
            if not os.path.exists(dst) or open(dst).read() != new:
                open(dst, 'w').write(new)
        toml = open(os.path.join(VERIF, 'finder', 'Cargo.toml.in')).read().replace('@REPO@', repo)
        open(os.path.join(src, 'Cargo.toml'), 'w').write(toml)
        lock = os.path.join(repo, 'Cargo.lock')
        if os.path.exists(lock) and not os.path.exists(os.path.join(src, 'Cargo.lock')):
            shutil.copy(lock, os.path.join(src, 'Cargo.lock'))
        p = subprocess.run(['cargo', 'build', '--offline', '--quiet'], cwd=src, env=_env(), stdout=subprocess.PIPE, stderr=subprocess.PIPE, text=True)
        if p.returncode != 0:
            return None, p.stderr[-2000:]
        bindir = os.path.join(VERIF, 'build', 'finder-bin-%s' % _rid(repo))
        os.makedirs(bindir, exist_ok=True)
        out = os.path.join(bindir, 'verif_finder')
        tmp = out + '.%d' % os.getpid()
        shutil.copy2(os.path.join(TARGET, 'debug', 'verif_finder'), tmp)
        os.replace(tmp, out)
    return out, ''


def build_duck(repo):
    """builds the CLI of the tree being checked (C20 runs the real executable)"""
    e = _env()
    e['CARGO_TARGET_DIR'] = os.path.join(VERIF, 'build', 'duck-target-%s' % _rid(repo))
    p = subprocess.run(['cargo', 'build', '--offline', '--quiet', '-p', 'duckscript_cli'], cwd=repo, env=e, stdout=subprocess.PIPE, stderr=subprocess.PIPE, text=True)
    b = os.path.join(e['CARGO_TARGET_DIR'], 'debug', 'duck')
    return b if p.returncode == 0 and os.path.exists(b) else None


_DUCK = {}


def _dictionary(repo):
    """option-like words ("-x", "--word") that occur as string literals in the non-test source of the tree under test:
    data for the finders (the usual fuzzing dictionary); written under build/"""
    import re
    out = os.path.join(VERIF, 'build', 'finder-dict-%s.txt' % _rid(repo))
    words = set()
    for root, _, files in os.walk(os.path.join(repo, 'duckscript_sdk', 'src')):
        for f in files:
            if f.endswith('.rs') and not f.endswith('_test.rs'):
                try:
                    words.update(re.findall(r'"(--?[A-Za-z][A-Za-z0-9_-]*)"', open(os.path.join(root, f), errors='replace').read()))
                except OSError:
                    pass
    open(out, 'w').write('\n'.join(sorted(words)) + '\n')
    return out


def _scratch_cwd():
    base = os.path.join(os.path.dirname(os.path.dirname(os.path.abspath(__file__))), 'build', 'finder-cwd')
    os.makedirs(base, exist_ok=True)
    return tempfile.mkdtemp(dir=base)


def _run(binp, args, timeout):
    env = dict(os.environ)
    if args and args[0] == 'C19':
        env['VERIF_DICT'] = _dictionary(_DUCK.get('repo', '/repo'))
    if args and args[0] == 'C20':
        repo = _DUCK.get('repo', '/repo')
        if repo not in _DUCK:
            _DUCK[repo] = build_duck(repo)
        if _DUCK[repo]:
            env['VERIF_DUCK_BIN'] = _DUCK[repo]
    try:
        # the real code under test may create files named by its arguments: every finder process runs in a scratch
        # directory of its own under build/, removed afterwards
        args = [os.path.abspath(a) if os.path.exists(a) else a for a in args]
        cwd = _scratch_cwd()
        try:
            p = subprocess.run([binp] + args, env=env, cwd=cwd, stdout=subprocess.PIPE, stderr=subprocess.PIPE, text=True, timeout=timeout)
        finally:
            shutil.rmtree(cwd, ignore_errors=True)
    except subprocess.TimeoutExpired:
        return dict(found=False, error='finder timeout (possible hang in real code)', hang=True)
    # the finder's answer is the LAST line that is a JSON object with a `found` / `fails` key (the real code under
    # test may print lines of its own, some of which start with a brace)
    lines = []
    for l in p.stdout.strip().split('\n'):
        if l.startswith('{'):
            try:
                v = json.loads(l)
            except ValueError:
                continue
            if isinstance(v, dict) and ('found' in v or 'fails' in v):
                lines.append(l)
    if not lines:
        if p.returncode < 0:
            # killed by a signal (abort, stack overflow, ..) while running the real code on a sampled input
            return dict(found=False, error='finder process died: signal %d %s' % (-p.returncode, p.stderr[-200:]), hang=True, died=-p.returncode)
        return dict(found=False, error='finder produced no result: rc=%s %s' % (p.returncode, p.stderr[-300:]))
    return json.loads(lines[-1])


def known_classes(pid):
    p = os.path.join(VERIF, 'known_findings.json')
    if not os.path.exists(p):
        return []
    return [k['class'] for k in json.load(open(p)).get('findings', []) if k['property'] == pid and k.get('status', 'open') == 'open' and k.get('class')]


def find(pid, seed, budget, repo, failure):
    if pid not in SUPPORTED:
        return dict(found=False, evaluations=0, note='no finder for this property')
    binp, err = build(repo)
    if not binp:
        # the finder crate links the tree being checked through its public API: a tree that changes that API (or
        # does not compile) cannot be sampled - said aloud, never an alarm
        print('NOTE: the sampled finder could not be built against this tree (no sampling done): %s' % err.strip().split('\n')[-1][:200])
        return dict(found=False, evaluations=0, error='finder build failed: ' + err)
    r = _run(binp, [pid, 'find', str(seed), str(budget)] + known_classes(pid), budget + 60)
    if r.get('hang'):
        # a sample did not come back: run the same (deterministic) sequence again and keep the last input started
        last = _last_started_input(binp, pid, seed, budget)
        if last is not None:
            print('NOTE: a sampled input did not terminate on this tree within the budget + 60 s; it is reported as the counterexample')
            what = ('the real code killed the process (signal %d) on this input' % r['died']) if r.get('died') else ('the real code did not return for this input (no result within %d s)' % (budget + 60))
            return dict(found=True, evaluations=None, input=last, detail=dict(what=what, hang=True))
        print('NOTE: the sampled finder did not return within its budget + 60 s and the input could not be isolated')
    return r


def _last_started_input(binp, pid, seed, budget):
    env = dict(os.environ, VERIF_FINDER_TRACE='1')
    if pid == 'C19':
        env['VERIF_DICT'] = _dictionary(_DUCK.get('repo', '/repo'))
    if _DUCK.get(_DUCK.get('repo', '/repo')):
        env['VERIF_DUCK_BIN'] = _DUCK[_DUCK.get('repo', '/repo')]
    try:
        cwd = _scratch_cwd()
        p = subprocess.Popen([binp, pid, 'find', str(seed), str(budget)] + known_classes(pid), env=env, cwd=cwd, stdout=subprocess.DEVNULL, stderr=subprocess.PIPE, text=True)
        try:
            _, err = p.communicate(timeout=budget + 30)
        except subprocess.TimeoutExpired:
            p.kill()
            _, err = p.communicate()
        finally:
            shutil.rmtree(cwd, ignore_errors=True)
        lines = [l for l in (err or '').strip().split('\n') if l.startswith('{')]
        return json.loads(lines[-1]) if lines else None
    except Exception:
        return None


def replay(pid, path, repo):
    binp, err = build(repo)
    if not binp:
        print('finder build failed: ' + err)
        return 2
    r = _run(binp, [pid, 'run', path], 120)
    print(json.dumps(r))
    if r.get('fails'):
        print('REPLAY property=%s: the recorded input still fails on the current tree' % pid)
        return 1
    print('REPLAY property=%s: the recorded input does not fail on the current tree' % pid)
    return 0


def witness_fails(pid, known, repo):
    """True/False if the witness of a known finding fails on the current tree; None if it cannot be run."""
    if pid not in SUPPORTED or 'witness' not in known:
        return None
    binp, err = build(repo)
    if not binp:
        return None
    tmp = os.path.join(VERIF, 'build', 'witness.%d.json' % os.getpid())
    json.dump(dict(witness=known['witness']), open(tmp, 'w'))
    r = _run(binp, [pid, 'run', tmp], 120)
    os.remove(tmp)
    if r.get('died'):
        # the witness kills the process that runs it (abort, stack overflow): it still fails
        return True
    if 'fails' not in r:
        return None
    return bool(r['fails'])


def is_known_input(pid, hit, known):
    for k in known:
        if k['property'] == pid and k.get('status', 'open') == 'open' and k.get('witness') == hit.get('input'):
            return True
    return False
