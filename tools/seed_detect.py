#!/usr/bin/env python3
"""Re-runs the checks against every confirmed seeded change (scratch worktree, removed afterwards) and updates
the `detection` / `detected_by` fields of seeded/<name>/meta.json.  usage: seed_detect.py [name-substring ...]"""
import json, os, subprocess, sys
V = '/verif'
wt = os.environ.get('WT_DETECT', '/tmp/wt_detect')
def sh(cmd, cwd=None):
    p = subprocess.run(cmd, shell=True, cwd=cwd, stdout=subprocess.PIPE, stderr=subprocess.STDOUT, text=True)
    return p.returncode, p.stdout
sh('git -C /repo worktree remove --force %s' % wt)
rc, o = sh('git -C /repo worktree add -q --detach %s HEAD' % wt)
missed = []
try:
    for name in sorted(os.listdir(os.path.join(V, 'seeded'))):
        if sys.argv[1:] and not any(a in name for a in sys.argv[1:]):
            continue
        sd = os.path.join(V, 'seeded', name)
        mp = os.path.join(sd, 'meta.json')
        if not os.path.exists(mp):
            continue
        meta = json.load(open(mp))
        sh('git checkout -q . && git clean -fdq', cwd=wt)
        rc, o = sh('git apply %s' % os.path.join(sd, 'patch.diff'), cwd=wt)
        if rc != 0:
            print(name, 'PATCH DOES NOT APPLY', o[:200]); continue
        det = {}
        for pid in meta['properties']:
            p = subprocess.run(['./check', pid], cwd=V, env=dict(os.environ, VERIF_REPO=wt), stdout=subprocess.PIPE, stderr=subprocess.STDOUT, text=True)
            lines = [l for l in p.stdout.split('\n') if l.startswith(('VIOLATION', 'UNDECIDED', 'OK', 'KNOWN'))]
            det[pid] = dict(exit=p.returncode, lines=[l[:300] for l in lines[:6]])
        meta['detection'] = det
        meta['detected_by'] = [pid for pid, d in det.items() if d['exit'] == 1]
        json.dump(meta, open(mp, 'w'), indent=1)
        v = [l for d in det.values() for l in d['lines'] if l.startswith('VIOLATION')]
        print('%-45s %s  %s' % (name, 'DETECTED' if meta['detected_by'] else 'MISSED', (v[0].split('obligation=')[-1] if v else '')[:110]))
        if not meta['detected_by']:
            missed.append(name)
finally:
    sh('git -C /repo worktree remove --force %s' % wt)
print('missed:', missed)
