#!/usr/bin/env python3
"""Development aid: verifies every unit under several solver seeds and lists the functions whose proof does not
survive all of them (candidates for hardening). usage: stability.py [unit ...]"""
import concurrent.futures, json, os, re, subprocess, sys
V = os.path.dirname(os.path.dirname(os.path.abspath(__file__)))
sys.path.insert(0, os.path.join(V, 'tools'))
import extract
units = sys.argv[1:] or sorted(f[:-4] for f in os.listdir(os.path.join(V, 'units')) if f.endswith('.vrs') and not f.startswith(('frag', 'macro', 'blocks_', '_')) and os.path.isfile(os.path.join(V, 'units', f)))
conf = json.load(open(os.path.join(V, 'tools', 'properties_conf.json')))
known = set(u for p in conf['properties'].values() for u in p.get('units', []))
units = [u for u in units if u in known]
work = '/tmp/vx/stab'
os.makedirs(work, exist_ok=True)
def one(u, seed):
    d = os.path.join(work, '%s_%d' % (u, seed))
    os.makedirs(d, exist_ok=True)
    g = extract.Gen(os.environ.get('VERIF_REPO', '/repo'), u, os.path.join(V, 'units', u + '.vrs')).run()
    rs = g.write(d)
    p = subprocess.run(['verus', os.path.basename(rs), '--rlimit', '20', '--multiple-errors', '20', '--smt-option', 'smt.random_seed=%d' % seed, '--smt-option', 'sat.random_seed=%d' % seed],
                       cwd=d, stdout=subprocess.PIPE, stderr=subprocess.STDOUT, text=True)
    errs = re.findall(r'^error[^\n]*\n\s+--> [^:]+:(\d+)', p.stdout, re.M)
    m = re.search(r'(\d+) verified, (\d+) errors', p.stdout)
    heads = [l for l in p.stdout.split('\n') if l.startswith('error') and 'aborting' not in l]
    return u, seed, (m.group(0) if m else 'no result'), heads[:6], errs[:6]
with concurrent.futures.ThreadPoolExecutor(max_workers=8) as ex:
    futs = [ex.submit(one, u, s) for u in units for s in (0, 1, 2, 3, 4)]
    for f in futs:
        u, seed, res, heads, errs = f.result()
        if ' 0 errors' not in res:
            print('UNSTABLE %-12s seed=%d %s lines=%s %s' % (u, seed, res, errs, heads[:2]))
print('done', len(units), 'units x 5 seeds')
