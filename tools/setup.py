#!/usr/bin/env python3
"""Offline setup: warm the finder build (real code, path deps on /repo). Failure is not fatal:
the finder only attaches counterexamples; deciding is done by Verus on every run."""
import os
import sys
sys.path.insert(0, os.path.dirname(os.path.abspath(__file__)))
import finder_driver
b, err = finder_driver.build(os.environ.get('VERIF_REPO', '/repo'))
print('finder:', b or ('build failed: ' + err))
import subprocess
print(subprocess.run(['verus', '--version'], stdout=subprocess.PIPE, text=True).stdout.strip())
