#!/usr/bin/env python3
"""Runs the repository test suite (guard off; there are no hooks) and checks that every test in
/root/.vp/BASELINE.json stable_pass passes. usage: baseline_check.py [repo]"""
import json, re, subprocess, sys
repo = sys.argv[1] if len(sys.argv) > 1 else '/repo'
base = json.load(open('/root/.vp/BASELINE.json'))['stable_pass']
p = subprocess.run(['cargo', 'test', '--workspace', '--no-fail-fast', '--offline'], cwd=repo, stdout=subprocess.PIPE, stderr=subprocess.STDOUT, text=True)
crate = None
failed = set()
in_fail = False
seen_result = 0
for l in p.stdout.split('\n'):
    m = re.search(r'Running (?:unittests )?\S+ \(target/debug/deps/([A-Za-z_]+)-', l)
    if m:
        crate = m.group(1)
        in_fail = False
    if l.strip() == 'failures:':
        in_fail = True
        continue
    if l.startswith('test result:'):
        in_fail = False
        seen_result += 1
    if in_fail and crate and re.match(r'^    [\w:]+$', l):
        failed.add(crate + '::' + l.strip())
    m = re.match(r'test (\S+)(?: - should panic)? \.\.\. FAILED', l)
    if m and crate:
        failed.add(crate + '::' + m.group(1))
missing = [t for t in base if t in failed]
print('baseline stable tests: %d, failing now: %d (test binaries finished: %d, build rc=%d)' % (len(base), len(missing), seen_result, p.returncode))
for t in missing[:20]:
    print('  NOT PASSING:', t)
if seen_result < 3:
    print(p.stdout[-2000:])
sys.exit(1 if (missing or seen_result < 3) else 0)
