#!/usr/bin/env python3
"""C19 side condition (mechanical scan, reported as an ASSUMPTION CHECK, not a proof): every variable
assigned in a script-implemented SDK command (script.ds) lies under the command's own scope prefix
`scope::<scope_name>::`, which AliasCommand::run clears afterwards (proved in unit alias)."""
import json, os, re, sys

def scan(repo):
    root = os.path.join(repo, 'duckscript_sdk/src/sdk/std')
    res = dict(files=0, assignments=0, violations=[])
    for dp, dn, fn in os.walk(root):
        if 'script.ds' not in fn or 'mod.rs' not in fn:
            continue
        mod = open(os.path.join(dp, 'mod.rs')).read()
        m = re.search(r'create_alias_command\(\s*[^,]+,\s*vec!\[[^\]]*\],\s*[^,]+\.to_string\(\),\s*"([^"]+)"\.to_string\(\)', mod, re.S)
        if not m:
            res['violations'].append(dict(file=os.path.relpath(dp, repo), what='scope name not found in mod.rs'))
            continue
        prefix = 'scope::%s::' % m.group(1)
        res['files'] += 1
        for i, line in enumerate(open(os.path.join(dp, 'script.ds')).read().split('\n')):
            s = line.strip()
            if not s or s.startswith('#'):
                continue
            names = []
            ma = re.match(r'^(?::\S+\s+)?([^\s=]+)\s*=\s*\S*', s)
            if ma and not s.startswith(('if ', 'elseif ', 'while ')):
                names.append(ma.group(1))
            mf = re.match(r'^(?:for|std::flowcontrol::ForIn)\s+(\S+)\s+in\s', s)
            if mf:
                names.append(mf.group(1))
            for n in names:
                res['assignments'] += 1
                if not n.startswith(prefix):
                    res['violations'].append(dict(file=os.path.relpath(os.path.join(dp, 'script.ds'), repo), line=i + 1, variable=n, expected_prefix=prefix))
    return res

if __name__ == '__main__':
    r = scan(sys.argv[1] if len(sys.argv) > 1 else '/repo')
    print(json.dumps(r, indent=1))
    sys.exit(1 if r['violations'] else 0)
