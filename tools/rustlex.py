"""Minimal Rust lexer helpers: code mask (comments / strings / chars blanked), brace matching,
item and loop location. Pure text tooling; no semantic analysis."""
import re


class LostAnchor(Exception):
    pass


def code_mask(src: str) -> str:
    """Return a string of the same length as src in which every character that is part of a
    comment, string literal or char literal is replaced by a space (newlines are kept)."""
    out = list(src)
    n = len(src)
    i = 0

    def blank(a, b):
        for k in range(a, b):
            if out[k] != '\n':
                out[k] = ' '

    while i < n:
        c = src[i]
        if c == '/' and i + 1 < n and src[i + 1] == '/':
            j = src.find('\n', i)
            if j < 0:
                j = n
            blank(i, j)
            i = j
        elif c == '/' and i + 1 < n and src[i + 1] == '*':
            depth = 1
            j = i + 2
            while j < n and depth > 0:
                if src.startswith('/*', j):
                    depth += 1
                    j += 2
                elif src.startswith('*/', j):
                    depth -= 1
                    j += 2
                else:
                    j += 1
            blank(i, j)
            i = j
        elif c == '"' or (c == 'b' and i + 1 < n and src[i + 1] == '"' and not _ident_before(src, i)):
            j = i + (1 if c == '"' else 2)
            while j < n and src[j] != '"':
                if src[j] == '\\':
                    j += 1
                j += 1
            j = min(j + 1, n)
            # keep the delimiters, blank the inside
            blank(i + (1 if c == '"' else 2), j - 1)
            i = j
        elif c == 'r' and not _ident_before(src, i) and re.match(r'r#*"', src[i:i + 12]):
            m = re.match(r'r(#*)"', src[i:i + 12])
            hashes = m.group(1)
            close = '"' + hashes
            j = src.find(close, i + len(m.group(0)))
            j = n if j < 0 else j + len(close)
            blank(i + len(m.group(0)), j - len(close))
            i = j
        elif c == "'":
            # char literal or lifetime
            m = re.match(r"'(\\.[^']*|[^'\\])'", src[i:i + 12])
            if m:
                blank(i + 1, i + len(m.group(0)) - 1)
                i += len(m.group(0))
            else:
                i += 1
        else:
            i += 1
    return ''.join(out)


def _ident_before(src, i):
    return i > 0 and (src[i - 1].isalnum() or src[i - 1] == '_')


def match_brace(mask: str, open_pos: int) -> int:
    """mask[open_pos] is an opening bracket; return the index of the matching closer."""
    pairs = {'{': '}', '(': ')', '[': ']'}
    o = mask[open_pos]
    c = pairs[o]
    depth = 0
    for k in range(open_pos, len(mask)):
        ch = mask[k]
        if ch == o:
            depth += 1
        elif ch == c:
            depth -= 1
            if depth == 0:
                return k
    raise LostAnchor('unbalanced %s at %d' % (o, open_pos))


def find_body_open(mask: str, start: int) -> int:
    """First '{' after start at paren/bracket depth 0 (also stops at ';' -> returns -1)."""
    depth = 0
    k = start
    while k < len(mask):
        ch = mask[k]
        if ch in '([':
            depth += 1
        elif ch in ')]':
            depth -= 1
        elif ch == '{' and depth == 0:
            return k
        elif ch == ';' and depth == 0:
            return -1
        k += 1
    return -1


def line_start(src, pos):
    return src.rfind('\n', 0, pos) + 1


def line_end(src, pos):
    j = src.find('\n', pos)
    return len(src) if j < 0 else j


def line_no(src, pos):
    return src.count('\n', 0, pos) + 1


def find_impl_block(src, mask, impl_sel):
    """impl_sel: 'Type' or 'Trait for Type'. Returns (open_brace, close_brace)."""
    if ' for ' in impl_sel:
        tr, ty = [x.strip() for x in impl_sel.split(' for ')]
        pat = r'\bimpl\b(\s*<[^{;]*?>)?\s+(?:[\w:]+::)?' + re.escape(tr) + r'(\s*<[^{;]*?>)?\s+for\s+(?:[\w:]+::)?' + re.escape(ty) + r'\b[^{;]*\{'
    else:
        pat = r'\bimpl\b(\s*<[^{;]*?>)?\s+' + re.escape(impl_sel) + r'\b(\s*<[^{;]*?>)?\s*(where[^{;]*)?\{'
    ms = [m for m in re.finditer(pat, mask)]
    if ' for ' not in impl_sel:
        ms = [m for m in ms if ' for ' not in m.group(0)]
    if not ms:
        raise LostAnchor('impl block not found: ' + impl_sel)
    if len(ms) > 1:
        raise LostAnchor('impl block ambiguous: ' + impl_sel)
    ob = ms[0].end() - 1
    return ob, match_brace(mask, ob)


def attr_start(src, mask, start):
    """Extend start backwards over attribute lines and doc comments directly above."""
    s = start
    while True:
        prev_end = s - 1
        if prev_end <= 0:
            break
        ps = line_start(src, prev_end - 1) if prev_end > 0 else 0
        line = src[ps:prev_end]
        st = line.strip()
        if st.startswith('#[') or st.startswith('///'):
            s = ps
        else:
            break
    return s


def find_item(src, mask, selector):
    """selector forms:
       'fn NAME'                    free function
       'TYPE::NAME'                 method in inherent impl
       'TRAIT for TYPE::NAME'       method in trait impl
       'trait TRAIT::NAME'          (default) method inside a trait definition
       'struct NAME' / 'enum NAME' / 'type NAME' / 'static NAME' / 'const NAME' / 'trait NAME'
       'impl SEL'                   a whole impl block
    Returns dict(start, end, kind, sig_end(body open) , body_close) with absolute offsets."""
    lo, hi = 0, len(src)
    sel = selector.strip()
    kind = None
    # 'nested struct NAME': an item statement inside a function body (hoisted to module level by rule R18)
    nested = sel.startswith('nested ')
    if nested:
        sel = sel[len('nested '):]
    if sel.startswith('impl '):
        ob, cb = find_impl_block(src, mask, sel[5:])
        m0 = mask.rfind('impl', 0, ob)
        # find the 'impl' keyword that starts this header
        hdr = re.compile(r'\bimpl\b')
        cands = [m.start() for m in hdr.finditer(mask, 0, ob)]
        st = line_start(src, cands[-1])
        return dict(start=attr_start(src, mask, st), end=cb + 1, kind='impl', body_open=ob, body_close=cb)
    m = re.match(r'(fn|struct|enum|type|static|const|trait)\s+(\w+)$', sel)
    if m:
        kind, name = m.group(1), m.group(2)
    else:
        if sel.startswith('trait ') and '::' in sel:
            tname, name = sel[6:].split('::')
            mm = re.search(r'\btrait\s+' + re.escape(tname) + r'\b[^{;]*\{', mask)
            if not mm:
                raise LostAnchor('trait not found: ' + tname)
            lo = mm.end() - 1
            hi = match_brace(mask, lo)
        else:
            impl_sel, name = sel.rsplit('::', 1)
            lo, hi = find_impl_block(src, mask, impl_sel)
        kind = 'fn'
    pat = re.compile(r'\b' + kind + r'\s+' + re.escape(name) + r'\b')
    cands = []
    for mm in pat.finditer(mask, lo, hi):
        # depth relative to container must be 0 (free) or 1 (inside impl/trait)
        depth = mask.count('{', lo, mm.start()) - mask.count('}', lo, mm.start())
        want = 0 if lo == 0 and hi == len(src) else 1
        if depth == want or (nested and depth > want):
            cands.append(mm)
    if not cands:
        raise LostAnchor('item not found: ' + selector)
    if len(cands) > 1:
        raise LostAnchor('item ambiguous: ' + selector)
    mm = cands[0]
    st = line_start(src, mm.start())
    st = attr_start(src, mask, st)
    if kind in ('fn', 'struct', 'enum', 'trait'):
        ob = find_body_open(mask, mm.end())
        if ob < 0:
            # declaration ending with ';' (unit struct, trait method decl)
            semi = mask.find(';', mm.end())
            return dict(start=st, end=semi + 1, kind=kind, body_open=-1, body_close=-1, name_end=mm.end())
        cb = match_brace(mask, ob)
        return dict(start=st, end=cb + 1, kind=kind, body_open=ob, body_close=cb, name_end=mm.end())
    semi_k = mm.end()
    depth = 0
    while semi_k < len(mask):
        ch = mask[semi_k]
        if ch in '([{':
            depth += 1
        elif ch in ')]}':
            depth -= 1
        elif ch == ';' and depth == 0:
            break
        semi_k += 1
    return dict(start=st, end=semi_k + 1, kind=kind, body_open=-1, body_close=-1, name_end=mm.end())


LOOP_RE = re.compile(r'(?<![\w.])(for|while|loop)\b')


def find_loops(mask, lo, hi):
    """Loops (for/while/loop) inside mask[lo:hi], in textual order.
    Returns list of dict(kw, kw_pos, body_open, in_pos (for 'for'))."""
    res = []
    for m in LOOP_RE.finditer(mask, lo, hi):
        kw = m.group(1)
        # 'for' in HRTB 'for<' is not a loop
        rest = mask[m.end():m.end() + 2]
        if kw == 'for' and rest.lstrip().startswith('<'):
            continue
        ob = find_body_open(mask, m.end())
        if ob < 0 or ob > hi:
            continue
        d = dict(kw=kw, kw_pos=m.start(), body_open=ob)
        if kw == 'for':
            mi = re.compile(r'\bin\b').search(mask, m.end(), ob)
            if not mi:
                continue
            d['in_end'] = mi.end()
        res.append(d)
    return res
