#!/usr/bin/env python3
"""Generate a single-file Verus crate for one unit from a template (units/<unit>.vrs) and the
CURRENT text of the repository. Real items are copied verbatim; the only edits are
  A* : insertions of ghost annotations taken from the template (never replace text)
  R* : the fixed syntactic rewrite rules listed in RULES below (pattern -> replacement)
Every edit is logged; the generated text is re-derived to the original by undoing the log
(self-check, LostAnchor on mismatch). A line map (generated line -> repo file:line | annotation
label) is written next to the generated file."""
import hashlib
import json
import os
import re
import sys

sys.path.insert(0, os.path.dirname(os.path.abspath(__file__)))
from rustlex import (LostAnchor, code_mask, find_item, find_loops, line_end, line_no,
                     line_start, match_brace)

VERIF = os.path.dirname(os.path.dirname(os.path.abspath(__file__)))

# --------------------------------------------------------------------------------------------
# Rewrite rules. Each rule is a function (text, mask, ctx) -> list of (start, end, new, tag).
# ctx: dict(crate='duckscript'|'duckscriptsdk'|'duckscript_cli', file=relpath)
# --------------------------------------------------------------------------------------------


def _balanced_call(mask, open_paren):
    return match_brace(mask, open_paren)


def rule_R0_paths(text, mask, ctx):
    """re-root paths into the single-file crate"""
    eds = []
    root = {'duckscript': 'crate::duckscript', 'duckscriptsdk': 'crate::duckscriptsdk',
            'duckscript_cli': 'crate::duckscript_cli'}[ctx['crate']]
    for m in re.finditer(r'(?<![\w:])crate::', mask):
        eds.append((m.start(), m.end(), root + '::', 'R0'))
    for m in re.finditer(r'(?<![\w:])duckscript::', mask):
        eds.append((m.start(), m.end(), 'crate::duckscript::', 'R0'))
    for m in re.finditer(r'(?<![\w:])duckscriptsdk::', mask):
        eds.append((m.start(), m.end(), 'crate::duckscriptsdk::', 'R0'))
    return eds


def rule_R1_format(text, mask, ctx):
    """format!(..) [and a directly following .to_string()] -> vfmt()"""
    eds = []
    for m in re.finditer(r'(?<![\w])format!\s*\(', mask):
        close = _balanced_call(mask, m.end() - 1)
        end = close + 1
        m2 = re.match(r'\s*\.to_string\(\)', mask[end:end + 40])
        if m2:
            end += m2.end()
        eds.append((m.start(), end, 'vfmt()', 'R1'))
    return eds


def rule_R1b_println(text, mask, ctx):
    """println!(..) / print!(..) -> vprint(): printed text is not verified"""
    eds = []
    for m in re.finditer(r'(?<![\w])(println|print|eprintln)!\s*\(', mask):
        close = _balanced_call(mask, m.end() - 1)
        eds.append((m.start(), close + 1, 'crate::vprint()', 'R1'))
    for m in re.finditer(r'(?<![\w])include_str!\s*\(', mask):
        close = _balanced_call(mask, m.end() - 1)
        eds.append((m.start(), close + 1, '""', 'R1'))
    return eds


def rule_R16_doc(text, mask, ctx):
    """doc comments and derive/allow attributes are dropped (no executable meaning)"""
    eds = []
    for m in re.finditer(r'^[ \t]*(///|//!)[^\n]*\n', text, re.M):
        # only if really a comment start in code (mask blanks comments fully)
        if mask[m.start():m.end()].strip() == '':
            eds.append((m.start(), m.end(), '', 'R16'))
    for m in re.finditer(r'^[ \t]*#\[(derive|allow|cfg_attr)\([^\n]*\)\][ \t]*\n', text, re.M):
        eds.append((m.start(), m.end(), '', 'R6'))
    return eds


def rule_R2_chars_collect(text, mask, ctx):
    """E.chars().collect() -> vchars(E) is not expressible as a local rewrite without the
    receiver; we rewrite the suffix only: `.chars().collect()` -> `.vchars()` is not valid Rust
    either, so the rule is: `X.chars().collect()` where X is a path/ident/field expr."""
    eds = []
    for m in re.finditer(r'([A-Za-z_][\w.]*)\.to_string\(\)\.chars\(\)\.collect\(\)', mask):
        eds.append((m.start(), m.end(), 'vchars(&' + m.group(1) + '.vto_string())', 'R2'))
    for m in re.finditer(r'([A-Za-z_][\w.]*)\.chars\(\)\.collect\(\)', mask):
        eds.append((m.start(), m.end(), 'vchars(&' + m.group(1) + ')', 'R2'))
    return eds


def rule_R3_streq(text, mask, ctx):
    """EXPR == "lit" / EXPR != "lit" -> vstr_eq(&*EXPR, "lit") for simple receiver expressions"""
    eds = []
    for m in re.finditer(r'([A-Za-z_&*][\w.\[\]()&*]*?)\s*(==|!=)\s*("(?:[^"\n]*)")', mask):
        lhs = m.group(1)
        # literal content is blanked in mask; take it from text
        lit = text[m.start(3):m.end(3)]
        if lhs.count('(') != lhs.count(')') or lhs.count('[') != lhs.count(']'):
            continue
        neg = '!' if m.group(2) == '!=' else ''
        eds.append((m.start(), m.end(), '%scrate::vstr_eq(&*%s, %s)' % (neg, lhs.lstrip('&'), lit), 'R3'))
    return eds


def rule_R4a_to_string(text, mask, ctx):
    eds = []
    for m in re.finditer(r'\.to_string\(\)', mask):
        eds.append((m.start(), m.end(), '.vto_string()', 'R4a'))
    return eds


def rule_R7_static(text, mask, ctx):
    """static NAME: T = LIT;  ->  exec static NAME: T ensures NAME == LIT { LIT }   (&str compared by view)"""
    eds = []
    for m in re.finditer(r'^([ \t]*)(pub(?:\([a-z]+\))?\s+)?static\s+(\w+)\s*:\s*([^=;]+?)\s*=\s*', mask, re.M):
        semi = mask.find(';', m.end())
        lit = text[m.end():semi].strip()
        name, ty = m.group(3), m.group(4).strip()
        if ty == '&str':
            new = '%s%sexec static %s: &\'static str ensures %s@ == %s@ { %s }' % (m.group(1), m.group(2) or '', name, name, lit, lit)
        else:
            new = '%s%sexec static %s: %s ensures %s == %s { %s }' % (m.group(1), m.group(2) or '', name, ty, name, lit, lit)
        eds.append((m.start(), semi + 1, new, 'R7'))
    return eds


def rule_R4b_parse_i32(text, mask, ctx):
    eds = []
    for m in re.finditer(r'([A-Za-z_][\w.]*)\.parse::<i32>\(\)', mask):
        eds.append((m.start(), m.end(), 'crate::v_parse_i32(&%s)' % m.group(1), 'R4b'))
    return eds


def rule_R4c_string_from(text, mask, ctx):
    eds = []
    for m in re.finditer(r'(?<![\w:])String::from\(', mask):
        eds.append((m.start(), m.end(), 'crate::v_string_from(', 'R4c'))
    return eds


def rule_R8_closure_underscore(text, mask, ctx):
    eds = []
    for m in re.finditer(r'\|_\|', mask):
        eds.append((m.start(), m.end(), '|_v|', 'R8'))
    return eds


def rule_R9_any(text, mask, ctx):
    eds = []
    for m in re.finditer(r'Rc::new\(RefCell::new\(', mask):
        inner_open = m.end() - 1
        inner_close = match_brace(mask, inner_open)
        outer_close = match_brace(mask, m.start() + len('Rc::new'))
        eds.append((m.start(), outer_close + 1, 'crate::any_wrap_vars(' + text[inner_open + 1:inner_close] + ')', 'R9'))
    for m in re.finditer(r'([A-Za-z_]\w*)\.borrow\(\)', mask):
        eds.append((m.start(), m.end(), 'crate::any_borrow(&%s)' % m.group(1), 'R9'))
    for m in re.finditer(r'([A-Za-z_]\w*)\.downcast_ref::<HashMap<String, String>>\(\)', mask):
        eds.append((m.start(), m.end(), 'crate::any_as_vars(&%s)' % m.group(1), 'R9'))
    for m in re.finditer(r'Rc<RefCell<dyn Any>>', mask):
        eds.append((m.start(), m.end(), 'AnyBox', 'R9'))
    return eds


def rule_R11_get_mut(text, mask, ctx):
    """X.get_mut(&K) -> v_get_mut(X, &K)  (monomorphic stub, HashMap<String, StateValue>)"""
    eds = []
    for m in re.finditer(r'([A-Za-z_][\w.]*)\.get_mut\(', mask):
        close = match_brace(mask, m.end() - 1)
        eds.append((m.start(), close + 1, 'v_get_mut(%s, %s)' % (m.group(1), text[m.end():close].strip()), 'R11'))
    return eds


def rule_R10_halt(text, mask, ctx):
    eds = []
    for m in re.finditer(r'([\w.]+)\.halt\.load\(Ordering::SeqCst\)', mask):
        eds.append((m.start(), m.end(), 'halt_load(&%s)' % m.group(1), 'R10'))
    return eds


def rule_R17_method_stubs(text, mask, ctx):
    """method calls on std string types that Verus has no spec for -> free stub functions with a
    spec in trusted/prelude.rs. Purely syntactic: RECV.method(ARGS) -> v_method(RECV, ARGS)
    for RECV a simple path / field expression."""
    eds = []
    table = ctx.get('method_stubs', {})
    if not table:
        return eds
    names = '|'.join(sorted(table.keys(), key=len, reverse=True))
    for m in re.finditer(r'\.(' + names + r')(?:::<[\w\s,:&]*>)?\(', mask):   # (an explicit type argument is dropped: the stub fixes it)
        close = _balanced_call(mask, m.end() - 1)
        args = text[m.end():close].strip()
        r0 = _recv_start(mask, m.start())
        if r0 >= m.start():
            continue
        recv = text[r0:m.start()]
        stub = table[m.group(1)]
        new = '%s(&%s%s)' % (stub, recv.lstrip('&'), (', ' + args) if args else '')
        eds.append((r0, close + 1, new, 'R4'))
    return eds


def _recv_start(mask, p):
    """start of the postfix expression that ends just before the '.' at p: identifiers, paths, field accesses,
    call / index suffixes with balanced brackets, a string literal, and one leading '&'"""
    i = p
    while i > 0:
        c = mask[i - 1]
        if c in ')]':
            depth = 0
            j = i - 1
            while j >= 0:
                if mask[j] in ')]':
                    depth += 1
                elif mask[j] in '([':
                    depth -= 1
                    if depth == 0:
                        break
                j -= 1
            if j < 0:
                break
            i = j
        elif c.isalnum() or c in '_.':
            i -= 1
        elif c == ':' and i >= 2 and mask[i - 2] == ':':
            i -= 2
        elif c == '"':
            j = mask.rfind('"', 0, i - 1)
            if j < 0:
                break
            i = j
        else:
            break
    if i > 0 and mask[i - 1] == '&':
        i -= 1
    return i


RULES = [rule_R7_static, rule_R0_paths, rule_R1_format, rule_R1b_println, rule_R16_doc, rule_R2_chars_collect, rule_R3_streq,
         rule_R4a_to_string, rule_R4b_parse_i32, rule_R4c_string_from, rule_R8_closure_underscore, rule_R9_any, rule_R11_get_mut, rule_R10_halt, rule_R17_method_stubs]


def crate_of(relpath):
    top = relpath.split('/')[0]
    return {'duckscript': 'duckscript', 'duckscript_sdk': 'duckscriptsdk',
            'duckscript_cli': 'duckscript_cli'}[top]


# --------------------------------------------------------------------------------------------


def find_closure(text, mask, bo, bc, k, sel):
    """k-th closure literal |params| BODY passed as a call argument inside text[bo:bc].
    Returns (p0, p1, body_start, body_end, params_text)."""
    cl = [m for m in re.finditer(r'(?<![|\w)\]])\|([^|\n]*)\|(?!\|)', mask[bo:bc])]
    cl = [m for m in cl if mask[bo + m.start() - 1] in '( ,=\n\t']
    if k > len(cl):
        raise LostAnchor('closure #%d not found in %s' % (k, sel))
    m = cl[k - 1]
    p0, p1 = bo + m.start(), bo + m.end()
    depth = 0
    q = p0 - 1
    while q > bo:
        if mask[q] == ')':
            depth += 1
        elif mask[q] == '(':
            if depth == 0:
                break
            depth -= 1
        q -= 1
    close = match_brace(mask, q)
    be = close
    while be > p1 and text[be - 1] in ' \t\n':
        be -= 1
    if text[be - 1] == ',':
        be -= 1
    bs = p1
    while text[bs] in ' \t\n':
        bs += 1
    return p0, p1, bs, be, m.group(1)


class Template:
    def __init__(self, path):
        self.path = path
        self.lines = open(path).read().split('\n')


def parse_fn_block(lines, i, tname=''):
    """lines[i] is '//@ fn ...'. Parse until '//@ end'. Returns (spec, next_i)."""
    hdr = lines[i][len('//@ fn '):]
    rel, sel = [x.strip() for x in hdr.split(' :: ', 1)]
    spec = dict(file=rel, selector=sel, props=[], ret=None, sig=[], loops={}, anchors=[], head=[],
                tmpl_line='%s:%d' % (tname, i + 1), rules_off=[], replace_sig=None, stubs={})
    cur = None
    i += 1
    while i < len(lines):
        ln = lines[i]
        s = ln.strip()
        if s.startswith('//@'):
            d = s[3:].strip()
            if d == 'end':
                return spec, i + 1
            w = d.split()
            if w[0] == 'props':
                spec['props'] = w[1:]
                cur = None
            elif w[0] == 'ret':
                spec['ret'] = w[1]
                cur = None
            elif w[0] == 'sig':
                cur = spec['sig']
            elif w[0] == 'head':
                cur = spec['head']
            elif w[0] == 'tail':
                cur = spec.setdefault('tail', [])
            elif w[0] == 'loop':
                k = int(w[1])
                spec['loops'][k] = dict(iter=None, text=[], tmpl_line='%s:%d' % (tname, i + 1))
                if len(w) >= 4 and w[2] == 'iter':
                    spec['loops'][k]['iter'] = w[3]
                cur = spec['loops'][k]['text']
            elif w[0] in ('before', 'after', 'before?', 'after?'):
                mm = re.match(r'(before|after)\??\s+"(.*)"(?:\s+#(\d+))?$', d)
                if not mm:
                    raise LostAnchor('bad anchor directive: ' + d)
                a = dict(where=mm.group(1), optional=w[0].endswith('?'), lit=mm.group(2), k=int(mm.group(3) or 1), text=[], tmpl_line='%s:%d' % (tname, i + 1))
                spec['anchors'].append(a)
                cur = a['text']
            elif w[0] == 'closure':
                mm = re.match(r'closure\s+(\d+)\s+params\s+"(.*?)"\s+ret\s+"(.*?)"$', d)
                if not mm:
                    raise LostAnchor('bad closure directive: ' + d)
                c = dict(k=int(mm.group(1)), params=mm.group(2), ret=mm.group(3), text=[], tmpl_line='%s:%d' % (tname, i + 1))
                spec.setdefault('closures', []).append(c)
                cur = c['text']
            elif w[0] == 'attr':
                spec.setdefault('attrs', []).append(d[len('attr'):].strip())
                cur = None
            elif w[0] in ('subst-all', 'subst-all?'):
                # subst-all? : every occurrence, none is fine too (a rewrite of a std call the function may or may not make)
                mm = re.match(r'subst-all\??\s+"(.*?)"\s+=>\s+"(.*)"$', d)
                spec.setdefault('substs_all', []).append((mm.group(1), mm.group(2), w[0].endswith('?')))
                cur = None
            elif w[0] == 'subst':
                mm = re.match(r'subst\s+"(.*?)"\s+=>\s+"(.*)"$', d)
                if not mm:
                    raise LostAnchor('bad subst directive: ' + d)
                spec.setdefault('substs', []).append((mm.group(1).replace('\\N', '\n'), mm.group(2).replace('\\N', '\n')))
                cur = None
            elif w[0] == 'rename':
                spec['rename'] = w[1]
                cur = None
            elif w[0] == 'hoist':
                # //@ hoist <item selector>: an item statement nested in this function body is taken out of it (R18);
                # the template extracts the same item at module level with its own //@ item / //@ fn directive
                spec.setdefault('hoists', []).append(d[len('hoist'):].strip())
                cur = None
            elif w[0] == 'closure-body':
                spec['closure_of'] = int(w[1])
                cur = None
            elif w[0] == 'header':
                spec['header'] = d[len('header'):].strip()
                cur = None
            elif w[0] == 'replace-closure':
                mm = re.match(r'replace-closure\s+(\d+)\s+=>\s+"(.*)"$', d)
                spec.setdefault('replace_closures', []).append((int(mm.group(1)), mm.group(2)))
                cur = None
            elif w[0] == 'norule':
                spec['rules_off'] += w[1:]
                cur = None
            elif w[0] == 'stub':
                # //@ stub method=free_fn ...
                for kv in w[1:]:
                    a, b = kv.split('=')
                    spec['stubs'][a] = b
                cur = None
            else:
                raise LostAnchor('unknown directive in fn block: ' + d)
        else:
            if cur is not None:
                cur.append((ln, '%s:%d' % (tname, i + 1)))
        i += 1
    raise LostAnchor('unterminated //@ fn block for ' + hdr)


class Gen:
    def __init__(self, repo, unit, tmpl_path, vacuity=False):
        self.repo = repo
        self.unit = unit
        self.vacuity = vacuity      # thorough tier: put `assert(false)` at the entry of every function under contract
        self.tmpl = Template(tmpl_path)
        self.out = []       # list of (text_line, origin)
        self.files = {}
        self.report = dict(unit=unit, functions=[], items=[], rules_applied={}, dropped=[])
        self.ledger = []    # obligations: dict(fn, label, kind, props, text)
        self.specs = {}     # contracts by function name (used by tools/audit_stubs.py)
        self.auto_items = {}    # file -> names of statics / consts to extract next to the functions of that file (R19)
        self._auto_done = set()
        # R4 for every function (a per-function `//@ stub` overrides): str methods Verus has no specification for
        self.default_stubs = {'starts_with': 'crate::v_starts_with', 'ends_with': 'crate::v_ends_with', 'to_lowercase': 'crate::v_to_lowercase'}

    def src(self, rel):
        if rel not in self.files:
            p = os.path.join(self.repo, rel)
            if not os.path.exists(p):
                raise LostAnchor('source file missing: ' + rel)
            t = open(p).read()
            self.files[rel] = (t, code_mask(t))
        return self.files[rel]

    def emit(self, text, origin):
        for ln in text.split('\n'):
            self.out.append((ln, origin))

    # ----------------------------------------------------------------------------------------
    def apply_edits(self, rel, start, end, edits):
        """edits: list of (s, e, new, tag, origin) absolute offsets in file `rel`, non overlapping.
        Emits lines with origins. Insertions (s == e) whose `new` contains newlines are emitted
        as separate lines carrying their own origin; other edits are inline."""
        text, _ = self.src(rel)
        edits = sorted(edits, key=lambda e: (e[0], e[1]))
        # drop exact duplicates / overlapping rule edits (first wins)
        clean = []
        last_end = start
        for e in edits:
            if e[0] < last_end and not (e[0] == e[1] == last_end):
                if e[0] < last_end:
                    if e[3].startswith('A'):
                        raise LostAnchor('annotation insertion at offset %d of %s overlaps a rewritten range' % (e[0], rel))
                    continue
            clean.append(e)
            last_end = max(last_end, e[1])
        edits = clean
        # build a flat list of (chunk_text, origin) then split into lines
        chunks = []
        pos = start
        for (s, e, new, tag, origin) in edits:
            if s < pos:
                continue
            if s > pos:
                chunks.append((text[pos:s], ('src', rel, pos)))
            chunks.append((new, origin if origin else ('rule', tag, rel, s)))
            pos = e
        if pos < end:
            chunks.append((text[pos:end], ('src', rel, pos)))
        # self check: undo edits
        rebuilt = []
        p = start
        for (s, e, new, tag, origin) in edits:
            if s < p:
                continue
            rebuilt.append(text[p:s])
            rebuilt.append(text[s:e])
            p = e
        rebuilt.append(text[p:end])
        if ''.join(rebuilt) != text[start:end]:
            raise LostAnchor('extraction self-check failed for ' + rel)
        # to lines
        cur_line = ''
        cur_origin = None
        for (ct, org) in chunks:
            parts = ct.split('\n')
            for k, part in enumerate(parts):
                if k > 0:
                    self.out.append((cur_line, cur_origin))
                    cur_line = ''
                    cur_origin = None
                if part.strip() and cur_origin is None:
                    if org[0] == 'src':
                        # compute the exact source offset of this part
                        off = org[2] + sum(len(x) + 1 for x in parts[:k])
                        cur_origin = ('src', rel, line_no(text, off))
                    elif org[0] == 'ann' and len(org) > 3:
                        cur_origin = ('ann', org[1], org[2], org[3][k] if k < len(org[3]) else '')
                    else:
                        cur_origin = org
                elif part.strip() and org[0] in ('ann',) and cur_origin and cur_origin[0] == 'src':
                    pass
                cur_line += part
        self.out.append((cur_line, cur_origin))

    def rule_edits(self, rel, start, end, rules_off=(), stubs=None):
        text, mask = self.src(rel)
        sub, submask = text[start:end], mask[start:end]
        st = dict(self.default_stubs)
        st.update(stubs or {})
        ctx = dict(crate=crate_of(rel), file=rel, method_stubs=st)
        eds = []
        for r in RULES:
            nm = r.__name__.split('_')[1]
            if nm in rules_off:
                continue
            for (s, e, new, tag) in r(sub, submask, ctx):
                eds.append((start + s, start + e, new, tag, None))
                self.report['rules_applied'][tag] = self.report['rules_applied'].get(tag, 0) + 1
        return eds

    # ----------------------------------------------------------------------------------------
    def do_item(self, rel, sel):
        text, mask = self.src(rel)
        it = find_item(text, mask, sel)
        eds = self.rule_edits(rel, it['start'], it['end'])
        self.apply_edits(rel, it['start'], it['end'], eds)
        self.report['items'].append(dict(file=rel, selector=sel, lines=[line_no(text, it['start']), line_no(text, it['end'])],
                                         sha256=hashlib.sha256(text[it['start']:it['end']].encode()).hexdigest()))

    def clause_lines(self, fnname, kind, lines, props):
        """register ledger entries for annotation lines; returns text to insert.
        A clause may span several lines: it ends at a line whose code part ends with ','."""
        out = []
        self._last_tls = []
        sect = kind
        cur = None          # open (unterminated) clause entry
        for (ln, tl) in lines:
            s = ln.strip()
            if not s:
                continue
            out.append(ln)
            self._last_tls.append(tl)
            bare = s.rstrip(',')
            if bare in ('requires', 'ensures', 'invariant', 'invariant_except_break', 'decreases', 'recommends'):
                sect = bare
                cur = None
                continue
            if s.startswith('//'):
                continue
            m = re.search(r'//\s*@ob\s+(\S+)(?:\s+(.*))?$', s)
            code = re.sub(r'//.*$', '', s).strip()
            counted = sect in ('ensures', 'invariant', 'invariant_except_break', 'decreases') or (m and sect != 'requires')
            depth_delta = sum(code.count(c) for c in '([{') - sum(code.count(c) for c in ')]}')
            if cur is not None:
                if cur.get('split_next'):
                    # a labelled conjunct inside a still-open clause has ended: the following lines form the next conjunct
                    self._clause_n = getattr(self, '_clause_n', 0) + 1
                    nxt = dict(fn=fnname, label='%s.%s#%d' % (fnname, sect, self._clause_n), kind=sect, props=cur['props'] if not cur.get('own_props') else props,
                               text='', tmpl_line=tl, tmpl_lines=[], depth=cur['depth'], continuation=True)
                    self.ledger.append(nxt)
                    cur = nxt
                cur['depth'] += depth_delta
                cur['tmpl_lines'].append(tl)
                cur['text'] = (cur['text'] + ' ' + code)[:400]
                if m:
                    cur['label'] = m.group(1)
                    if m.group(2):
                        cur['props'] = m.group(2).split()
                        cur['own_props'] = True
                    cur['split_next'] = True
            elif counted or (m and sect == 'ghost'):
                self._clause_n = getattr(self, '_clause_n', 0) + 1
                label = m.group(1) if m else '%s.%s#%d' % (fnname, sect, self._clause_n)
                p = m.group(2).split() if (m and m.group(2)) else props
                cur = dict(fn=fnname, label=label, kind=sect, props=p, text=code, tmpl_line=tl, tmpl_lines=[tl], depth=depth_delta)
                if m:
                    cur['split_next'] = True
                self.ledger.append(cur)
            if cur is not None and (sect == 'ghost' or (cur['depth'] <= 0 and (code.endswith(',') or code.endswith(';') or code.endswith('}')))):
                if cur.get('continuation') and not re.search(r'\w', cur['text']):
                    self.ledger.remove(cur)
                cur = None
        return out

    def do_fn(self, spec):
        rel, sel = spec['file'], spec['selector']
        text, mask = self.src(rel)
        # R19: a constant the (changed) function refers to and the template does not know is extracted with it
        for nm in self.auto_items.get(rel, []):
            if (rel, nm) in self._auto_done:
                continue
            self._auto_done.add((rel, nm))
            for kind in ('static', 'const'):
                try:
                    self.do_item(rel, '%s %s' % (kind, nm))
                    self.report['rules_applied']['R19'] = self.report['rules_applied'].get('R19', 0) + 1
                    break
                except LostAnchor:
                    continue
        it = find_item(text, mask, sel)
        if it['body_open'] < 0:
            raise LostAnchor('function has no body: ' + sel)
        fnname = sel.replace('fn ', '')
        if fnname == 'run':
            # free functions all called `run`: name them after their module
            stem = os.path.basename(rel)[:-3]
            fnname = '%s::run' % (os.path.basename(os.path.dirname(rel)) if stem == 'mod' else stem)
        if ' for ' in sel:
            # trait impl method: name it after the module directory and the implementing type
            ty, meth = sel.split(' for ', 1)[1].rsplit('::', 1)
            fnname = '%s::%s::%s' % (os.path.basename(os.path.dirname(rel)), ty, meth)
        closure_mode = 'closure_of' in spec
        if closure_mode:
            # R12 lambda lifting: the k-th closure literal of the host function becomes a function whose
            # header comes from the template and whose body is the closure body, verbatim
            k = spec['closure_of']
            cp0, cp1, cbs, cbe, cparams = find_closure(text, mask, it['body_open'], it['body_close'], k, sel)
            it = dict(start=cbs, end=cbe, body_open=cbs, body_close=cbe, name_end=cbs, kind='closure')
            fnname = fnname + '__closure%d' % k
            hdr_names = re.findall(r'(\w+)\s*:', spec.get('header', '').split('(', 1)[1]) if '(' in spec.get('header', '') else []
            for nm in [x.strip() for x in cparams.split(',') if x.strip()]:
                if nm.split(':')[0].strip() not in hdr_names:
                    raise LostAnchor('closure #%d of %s has parameter %s not named in the lifted header' % (k, sel, nm))
        eds = self.rule_edits(rel, it['start'], it['end'], spec['rules_off'], spec['stubs'])
        bo, bc = it['body_open'], it['body_close']
        props = spec['props']
        self.specs[spec.get('rename') or fnname] = dict(unit=self.unit, file=rel, selector=sel, ret=spec['ret'], sig=[ln for ln, _ in spec['sig']], closure=closure_mode)
        ann_id = [0]
        if spec.get('rename') and not closure_mode:
            nm = re.compile(r'\bfn\s+(\w+)').search(mask, it['start'], it['name_end'])
            eds.append((nm.start(1), nm.end(1), spec['rename'], 'R12', None))
            fnname = spec['rename']
        for (k, new_t) in spec.get('replace_closures', []):
            cp0, cp1, cbs, cbe, cparams = find_closure(text, mask, bo, bc, k, sel)
            eds.append((cp0, cbe, new_t, 'R12', None))
            eds[:] = [e for e in eds if not (cp0 <= e[0] and e[1] <= cbe and e[4] is None and e[3] != 'R12')]
            self.report['rules_applied']['R12'] = self.report['rules_applied'].get('R12', 0) + 1

        def ann(pos, lines, kind, label):
            body = self.clause_lines(fnname, kind, lines, props)
            if not body:
                return
            ann_id[0] += 1
            eds.append((pos, pos, '\n' + '\n'.join(body) + '\n', 'A', ('ann', fnname, label, [''] + self._last_tls + [''])))

        for a in spec.get('attrs', []):
            ls0 = line_start(text, mask.rfind('fn', it['start'], it['name_end']))
            eds.append((ls0, ls0, a + '\n', 'A1', ('ann', fnname, 'attr')))
        if closure_mode:
            spec = dict(spec)
            spec['ret'] = None
            self.emit(spec['header'], ('ann', fnname, 'header'))
            body = self.clause_lines(fnname, 'sig', spec['sig'], props)
            for ln_, tl_ in zip(body, self._last_tls):
                self.out.append((ln_, ('ann', fnname, 'sig', tl_)))
            self.emit('{', ('ann', fnname, 'header'))
            spec['sig'] = []
        # return value name
        if spec['ret']:
            sig_mask = mask[it['name_end']:bo]
            # '->' at paren depth 0
            depth = 0
            arrow = -1
            k = 0
            while k < len(sig_mask) - 1:
                ch = sig_mask[k]
                if ch in '([':
                    depth += 1
                elif ch in ')]':
                    depth -= 1
                elif ch == '-' and sig_mask[k + 1] == '>' and depth == 0:
                    arrow = k
                    break
                k += 1
            if arrow < 0:
                raise LostAnchor('no return type to name in ' + sel)
            ty_start = it['name_end'] + arrow + 2
            wm = re.search(r'\bwhere\b', mask[ty_start:bo])
            ty_end = ty_start + wm.start() if wm else bo
            # trim whitespace
            while text[ty_start] in ' \t\n':
                ty_start += 1
            while text[ty_end - 1] in ' \t\n':
                ty_end -= 1
            eds.append((ty_start, ty_start, '(%s: ' % spec['ret'], 'A1', ('ann', fnname, 'ret')))
            eds.append((ty_end, ty_end, ')', 'A1', ('ann', fnname, 'ret')))
        # signature contract
        if not closure_mode:
            ann(bo, spec['sig'], 'sig', 'sig')
        # always register the implicit safety obligation of the function
        self.ledger.append(dict(fn=fnname, label=fnname + '.safety', kind='implicit', props=props,
                                text='no out-of-bounds / unwrap-on-None / overflow / reachable panic; termination of loops with decreases',
                                tmpl_line=spec['tmpl_line']))
        if (' for ' in sel and sel.endswith('::run')) and not spec.get('rename'):
            self.ledger.append(dict(fn=fnname, label=fnname + '.run_rel', kind='ensures', props=props,
                                    text='trait postcondition: run satisfies this command\'s run_rel (its effect on variables / state / result as specified)',
                                    tmpl_line=spec['tmpl_line'] + '#run_rel'))
        if self.vacuity and not closure_mode:
            # A7 vacuity probe: must FAIL in every function (a function where it verifies has a contradictory
            # precondition or sits behind an inconsistent assumption)
            eds.append((bo + 1, bo + 1, '\nproof { assert(false); } // VACUITY-PROBE ' + fnname + '\n', 'A7', ('ann', fnname, 'vacuity')))
        if spec['head']:
            ann(bo if closure_mode else bo + 1, spec['head'], 'ghost', 'head')
        if spec.get('tail') and not closure_mode:
            # A6 tail ghost block (insertions only): `{ B }` becomes `{ let __r = { B }; <ghost>; __r }` so that one
            # proof block can follow the value of the body; `return` statements inside B bypass it
            eds.append((bo + 1, bo + 1, '\nlet __r = {\n', 'A6', ('ann', fnname, 'tail.open')))
            tbody = self.clause_lines(fnname, 'ghost', spec['tail'], props)
            eds.append((bc, bc, '\n};\n' + '\n'.join(tbody) + '\n__r\n', 'A6', ('ann', fnname, 'tail', ['', ''] + self._last_tls + ['', ''])))
        # loops
        loops = find_loops(mask, bo, bc)
        for k, lspec in spec['loops'].items():
            if k < 1 or k > len(loops):
                raise LostAnchor('loop #%d not found in %s (has %d)' % (k, sel, len(loops)))
            lp = loops[k - 1]
            if lspec['iter']:
                if lp['kw'] != 'for':
                    raise LostAnchor('loop #%d of %s is not a for loop' % (k, sel))
                eds.append((lp['in_end'], lp['in_end'], ' %s:' % lspec['iter'], 'A2', ('ann', fnname, 'loop%d.iter' % k)))
            ann(lp['body_open'], lspec['text'], 'loop%d' % k, 'loop%d' % k)
        # R18: nested item statements (struct / impl inside the body) are removed here and extracted at module level
        for hsel in spec.get('hoists', []):
            hit = find_item(text, mask, hsel)
            if not (bo < hit['start'] and hit['end'] <= bc):
                raise LostAnchor('hoisted item %s is not inside %s' % (hsel, sel))
            eds[:] = [e for e in eds if not (hit['start'] <= e[0] and e[1] <= hit['end'])]
            eds.append((hit['start'], hit['end'], '', 'R18', None))
            self.report['rules_applied']['R18'] = self.report['rules_applied'].get('R18', 0) + 1
        # declared textual substitutions (R15 and friends): exactly one occurrence required
        for (old_t, new_t) in spec.get('substs', []):
            body_text = text[it['start']:it['end']]
            if body_text.count(old_t) != 1:
                raise LostAnchor('subst source "%s" occurs %d times in %s' % (old_t, body_text.count(old_t), sel))
            p0 = it['start'] + body_text.index(old_t)
            eds.append((p0, p0 + len(old_t), new_t, 'R15', None))
            self.report['rules_applied']['R15'] = self.report['rules_applied'].get('R15', 0) + 1
        for (old_t, new_t, zero_ok) in spec.get('substs_all', []):
            body_text = text[it['start']:it['end']]
            if body_text.count(old_t) < 1 and not zero_ok:
                raise LostAnchor('subst-all source "%s" does not occur in %s' % (old_t, sel))
            st_ = 0
            while True:
                ix = body_text.find(old_t, st_)
                if ix < 0:
                    break
                eds.append((it['start'] + ix, it['start'] + ix + len(old_t), new_t, 'R15', None))
                st_ = ix + len(old_t)
        # closures (A3): |p| EXPR  ->  |p: T| -> (q: R) ensures ... { EXPR }
        for c in spec.get('closures', []):
            p0, p1, cbs, cbe, cparams = find_closure(text, mask, bo, bc, c['k'], sel)
            close = cbe
            class _M:
                pass
            m = _M()
            m.group = lambda i, cparams=cparams: cparams
            names_old = [x.strip().split(':')[0].strip() for x in m.group(1).split(',') if x.strip()]
            names_new = re.findall(r'(?:^|,)\s*(\w+)\s*:', re.sub(r'<[^<>]*>', '', re.sub(r'<[^<>]*>', '', c['params'])))
            if names_old != names_new and not (names_old == ['_'] ):
                raise LostAnchor('closure #%d of %s has parameters %s, contract expects %s' % (c['k'], sel, names_old, names_new))
            body = self.clause_lines(fnname, 'closure%d' % c['k'], c['text'], props)
            eds.append((p0, p1, '|%s| -> (%s)' % (c['params'], c['ret']), 'A3', ('ann', fnname, 'closure%d' % c['k'])))
            body_is_block = text[p1:close].strip().startswith('{')
            eds.append((p1, p1, '\n' + '\n'.join(body) + '\n' + ('' if body_is_block else '{ '), 'A3', ('ann', fnname, 'closure%d' % c['k'], [''] + self._last_tls + [''])))
            if not body_is_block:
                eds.append((close, close, ' }', 'A3', ('ann', fnname, 'closure%d' % c['k'])))
        # anchors
        for a in spec['anchors']:
            body_text = text[bo:bc]
            idx = -1
            start = 0
            endidx = -1
            for _ in range(a['k']):
                if '\\N' in a['lit']:
                    # multi-line anchor: \N stands for a line break with any indentation
                    mo = re.compile(r'[ \t]*\n\s*'.join(re.escape(x) for x in a['lit'].split('\\N'))).search(body_text, start)
                    idx, endidx = (mo.start(), mo.end() - 1) if mo else (-1, -1)
                else:
                    idx = body_text.find(a['lit'], start)
                    endidx = idx
                if idx < 0 and a['k'] == 1 and '\\N' not in a['lit']:
                    # the anchored statement itself was edited: fall back to the ONE line of the body that starts like
                    # it (same statement head); the ghost text is inserted there and the approximation is reported
                    fz = fuzzy_anchor(body_text, a['lit'])
                    if fz is not None:
                        idx = endidx = fz
                        self.report.setdefault('fuzzy_anchors', []).append(dict(function=fnname, anchor=a['lit'], matched=body_text[fz:body_text.find('\n', fz)].strip()[:120]))
                if idx < 0:
                    if a.get('optional'):
                        # (an optional hint: on the unchanged tree its anchor exists; when it is gone the hint is left out
                        # and a failing obligation of this function no longer counts as decided)
                        self.report.setdefault('dropped_hints', []).append(dict(function=fnname, anchor=a['lit']))
                        break
                    raise LostAnchor('anchor "%s" #%d not found in %s' % (a['lit'], a['k'], sel))
                start = idx + 1
            if idx < 0:
                continue
            pos = bo + idx
            if a['where'] == 'before':
                p = line_start(text, pos)
                body = self.clause_lines(fnname, 'ghost', a['text'], props)
                eds.append((p, p, '\n'.join(body) + '\n', 'A4', ('ann', fnname, 'ghost@' + a['lit'], self._last_tls + [''])))
            else:
                p = line_end(text, bo + endidx)
                body = self.clause_lines(fnname, 'ghost', a['text'], props)
                eds.append((p, p, '\n' + '\n'.join(body), 'A4', ('ann', fnname, 'ghost@' + a['lit'], [''] + self._last_tls)))
        first_out = len(self.out) - (len(spec.get('header', '').split('\n')) + 1 if closure_mode else 0)
        self.apply_edits(rel, it['start'], it['end'], eds)
        if closure_mode:
            self.emit('}', ('ann', fnname, 'header'))
        self.report['functions'].append(dict(
            file=rel, selector=sel + (' #closure%d' % spec['closure_of'] if closure_mode else ''), name=fnname, props=props,
            src_lines=[line_no(text, it['start']), line_no(text, it['end'])],
            gen_lines=[first_out + 1, len(self.out)],
            sha256=hashlib.sha256(text[it['start']:it['end']].encode()).hexdigest(),
            loops=len(loops),
            edits=[dict(tag=e[3], at=line_no(text, e[0]), old=text[e[0]:e[1]][:60], new=e[2][:60]) for e in sorted(eds) if not e[3].startswith('A') or e[3] != 'A']))

    # ----------------------------------------------------------------------------------------
    def run(self, L=None, tname=None):
        if L is None:
            L = self.tmpl.lines
            tname = os.path.basename(self.tmpl.path)
        i = 0
        while i < len(L):
            ln = L[i]
            s = ln.strip()
            if s.startswith('//@ fn '):
                spec, i = parse_fn_block(L, i, tname)
                self.do_fn(spec)
                continue
            if s.startswith('//@ item '):
                rel, sel = [x.strip() for x in s[len('//@ item '):].split(' :: ', 1)]
                self.do_item(rel, sel)
            elif s.startswith('//@ use-macro '):
                w = s[len('//@ use-macro '):].split()
                mp = os.path.join(VERIF, w[0])
                txt = open(mp).read()
                for kv in w[1:]:
                    a, b = kv.split('=', 1)
                    txt = txt.replace('$' + a, b.replace('+', ' '))
                self.run(txt.split('\n'), os.path.basename(mp) + '[' + w[1] + ']')
            elif s.startswith('//@ include-tmpl '):
                p = os.path.join(VERIF, s[len('//@ include-tmpl '):].strip())
                self.run(open(p).read().split('\n'), os.path.basename(p))
            elif s.startswith('//@ include '):
                p = os.path.join(VERIF, s[len('//@ include '):].strip())
                for k, l2 in enumerate(open(p).read().split('\n')):
                    self.out.append((l2, ('inc', os.path.relpath(p, VERIF), k + 1)))
            elif s.startswith('//@ opaque-audit '):
                # //@ opaque-audit <fragment> <method> [props..]: the contract that the OPAQUE stub of <method> carries in
                # <fragment> (units that see the registry only through its abstract views) is re-stated here over the
                # real fields and proved from the method's own contract: fn <method>__opaque_audit(..) <stub contract,
                # views replaced> { c.<method>(..) }
                w = s.split()
                frag, meth, props = os.path.join(VERIF, w[2]), w[3], w[4:]
                txt = opaque_audit_text(open(frag).read(), meth)
                for k, l2 in enumerate(txt.split('\n')):
                    self.out.append((l2, ('tmpl', tname, i + 1)))
                self.ledger.append(dict(fn=meth + '__opaque_audit', label='%s.opaque_stub_contract_follows' % meth, kind='lemma', props=props,
                                        text='fn %s__opaque_audit' % meth, tmpl_line='%s:%d' % (tname, i + 1)))
            elif s.startswith('//@ default-stub '):
                for kv in s[len('//@ default-stub '):].split():
                    a, b = kv.split('=')
                    self.default_stubs[a] = b
            elif s.startswith('//@ lemma '):
                # //@ lemma LABEL props...   : ledger entry for a proof fn that follows
                w = s.split()
                self.ledger.append(dict(fn=w[2], label=w[2], kind='lemma', props=w[3:], text='proof fn ' + w[2], tmpl_line='%s:%d' % (tname, i + 1)))
            elif s.startswith('//@'):
                raise LostAnchor('unknown directive: ' + s)
            else:
                self.out.append((ln, ('tmpl', tname, i + 1)))
            i += 1
        return self

    def write(self, outdir):
        os.makedirs(outdir, exist_ok=True)
        rs = os.path.join(outdir, self.unit + '.rs')
        with open(rs, 'w') as f:
            f.write('\n'.join(t for t, _ in self.out) + '\n')
        with open(os.path.join(outdir, self.unit + '.map.json'), 'w') as f:
            json.dump(dict(lines=[o for _, o in self.out], report=self.report, ledger=self.ledger), f)
        return rs


def fuzzy_anchor(body_text, lit):
    """offset of the single line of body_text whose stripped text starts like the (stripped) anchor literal: first with
    its statement head (the text up to the first '=' or '(' inclusive), and only when no line shares that much, with its
    first two words; None when there is no such line or more than one"""
    want = lit.strip()
    if len(want) < 8:
        return None
    m = re.search(r'[=(]', want)
    head = len(want[:m.end()]) if m else len(want.rstrip(' {;'))   # no `=` / `(`: the whole statement text (`match x {`)
    m2 = re.match(r'\w+\W+\w+', want)          # first two words, e.g. `if argument` of `if argument.is_empty() {`
    two = len(m2.group(0)) if m2 else len(want)
    for need in sorted(set([max(6, head), max(6, min(head, two))]), reverse=True):
        cands = []
        off = 0
        for line in body_text.split('\n'):
            st = line.strip()
            k = 0
            while k < len(st) and k < len(want) and st[k] == want[k]:
                k += 1
            if k >= need:
                cands.append(off + (len(line) - len(line.lstrip())))
            off += len(line) + 1
        if len(cands) == 1:
            return cands[0]
        if len(cands) > 1:
            return None
    return None


def opaque_audit_text(frag, meth):
    """from `pub fn METH(&self|&mut self, params) -> (r: T) requires.. ensures.. { unimplemented!() }` in the opaque
    fragment to an audit function over the transparent type: self -> c, names() -> commands@, alias_map() -> aliases@,
    lookup(E) -> lookup(skey(E))"""
    m = re.search(r'pub fn %s\((&mut self|&self)(?:,\s*)?([^)]*)\)\s*->\s*\((\w+):\s*([^\n]*?)\)\s*\n?(.*?)\{\s*unimplemented!\(\)\s*\}' % re.escape(meth), frag, re.S)
    if not m:
        raise LostAnchor('opaque stub not found: ' + meth)
    recv, params, rname, rtype, spec = m.group(1), m.group(2).strip(), m.group(3), m.group(4).strip(), m.group(5)
    spec = re.sub(r'\bself\b', 'c', spec)
    spec = spec.replace('.names()', '.commands@').replace('.alias_map()', '.aliases@')
    spec = re.sub(r'\.lookup\(((?:[^()]|\([^()]*\))*)\)', r'.lookup(crate::trusted::skey(\1))', spec)
    cparam = 'c: &mut Commands' if recv == '&mut self' else 'c: &Commands'
    args = ', '.join(x.split(':')[0].strip() for x in params.split(',') if x.strip())
    return ('/// audit of the opaque stub of Commands::%s (units/frag_command_opaque.vrs): its contract, with the abstract views\n'
            '/// replaced by the real tables, follows from the contract proved above\n'
            'pub fn %s__opaque_audit(%s%s) -> (%s: %s)\n%s{ c.%s(%s) }\n') % (
        meth, meth, cparam, (', ' + params) if params else '', rname, rtype, spec, meth, args)


def main():
    repo = os.environ.get('VERIF_REPO', '/repo')
    unit = sys.argv[1]
    outdir = sys.argv[2]
    try:
        g = Gen(repo, unit, os.path.join(VERIF, 'units', unit + '.vrs')).run()
    except LostAnchor as e:
        print('LOST-ANCHOR unit=%s: %s' % (unit, e))
        sys.exit(2)
    print(g.write(outdir))


if __name__ == '__main__':
    main()
