#!/usr/bin/env python3
"""Regenerates MANIFEST.json from tools/properties_conf.json (single source of truth)."""
import json
import os
V = os.path.dirname(os.path.dirname(os.path.abspath(__file__)))
conf = json.load(open(os.path.join(V, 'tools', 'properties_conf.json')))
props = [json.loads(l) for l in open(os.path.join(V, 'properties.jsonl'))]
checks = []
na = []
for p in props:
    pid = p['id']
    pc = conf['properties'].get(pid)
    if not pc or pc.get('not_applicable'):
        na.append(dict(property_id=pid, reason=(pc or {}).get('not_applicable', 'not reached yet by the build (see DESIGN.md section 7)')))
        continue
    checks.append(dict(
        property_id=pid,
        quick_cmd='./check %s --tier quick' % pid,
        thorough_cmd='./check %s --tier thorough' % pid,
        evidence_file='/verif/evidence/%s.json' % pid,
        replay_cmd_template='./check %s --replay {path}' % pid,
        engine='verus-contracts',
        level_claimed=dict(category=pc.get('category', 'proof'), text=pc['level_text'], design_ref=pc.get('design_ref', 'DESIGN.md section 4 ' + pid)),
        level_note=pc['level_note'],
        technique=pc.get('technique', 'contract-based deductive verification: Verus requires/ensures/invariants on functions extracted mechanically from /repo each run'),
    ))
m = dict(
    version=1,
    setup_cmd='python3 tools/setup.py',
    hooks=dict(guard='duckscript_verif', enable='none needed: extraction reads source text, the finder uses the public API (no source hooks exist)',
               baseline_off_cmd='cd /repo && cargo test --workspace --no-fail-fast --offline', source_commits=[], add_only=True),
    engines=[dict(name='verus-contracts', path='/verif/check', serves_properties=[c['property_id'] for c in checks],
                  kind_free_text='Verus 0.2026.09.13 contracts on real functions extracted from /repo on every run (tools/extract.py + units/*.vrs); sampled finder on the real code for replay')],
    checks=checks,
    notes='Exit codes of ./check: 0 held, 1 VIOLATION (named obligation failed), 2 UNDECIDED (lost anchor / unsupported construct / resource limit: never an alarm). Known findings: known_findings.json.',
    not_applicable=na,
)
json.dump(m, open(os.path.join(V, 'MANIFEST.json'), 'w'), indent=1)
print('checks:', [c['property_id'] for c in checks], 'n/a:', [n['property_id'] for n in na])
