#!/usr/bin/env python3
"""For every seeded change that is caught ONLY by a replayed finder counterexample, re-run the check under other
VERIF_SEED values and report the ones that are not caught every time (fragile sampling).
usage: seed_robust.py <lane> <lanes> [seeds...]   (env WT_DETECT: scratch worktree)"""
import json, os, subprocess, sys
V = '/verif'
lane, lanes = int(sys.argv[1]), int(sys.argv[2])
seeds = [int(x) for x in sys.argv[3:]] or [1, 2]
wt = os.environ.get('WT_DETECT', '/tmp/wt_robust_%d' % lane)
def sh(cmd, cwd=None):
    p = subprocess.run(cmd, shell=True, cwd=cwd, stdout=subprocess.PIPE, stderr=subprocess.STDOUT, text=True)
    return p.returncode, p.stdout
sh('git -C /repo worktree remove --force %s' % wt)
sh('git -C /repo worktree add -q --detach %s HEAD' % wt)
names = []
for name in sorted(os.listdir(V + '/seeded')):
    mp = os.path.join(V, 'seeded', name, 'meta.json')
    if not os.path.exists(mp):
        continue
    m = json.load(open(mp))
    viol = [l for d in m.get('detection', {}).values() for l in d['lines'] if l.startswith('VIOLATION')]
    if viol and all(('replayed-counterexample' in l or 'sampled-replay' in l) for l in viol):
        names.append((name, m))
try:
    for k, (name, m) in enumerate(names):
        if k % lanes != lane:
            continue
        sh('git checkout -q . && git clean -fdq', cwd=wt)
        rc, o = sh('git apply %s' % os.path.join(V, 'seeded', name, 'patch.diff'), cwd=wt)
        if rc != 0:
            print(name, 'PATCH DOES NOT APPLY', flush=True); continue
        pids = [p for p, d in m['detection'].items() if d['exit'] == 1] or m['properties'][:1]
        res = []
        for sd in seeds:
            hit = False
            for pid in pids:
                p = subprocess.run(['./check', pid], cwd=V, env=dict(os.environ, VERIF_REPO=wt, VERIF_SEED=str(sd)), stdout=subprocess.PIPE, stderr=subprocess.STDOUT, text=True)
                if p.returncode == 1:
                    hit = True
                    break
            res.append(hit)
        print('%-70s %s %s' % (name, 'ROBUST' if all(res) else 'FRAGILE', res), flush=True)
finally:
    sh('git -C /repo worktree remove --force %s' % wt)
print('LANEDONE', flush=True)
