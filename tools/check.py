#!/usr/bin/env python3
"""./check <property-id> [--tier quick|thorough] [--replay <path>]

Decides one property by Verus contracts on functions extracted from the current tree of
${VERIF_REPO:-/repo}.  Exit 0: every obligation discharged (or only listed known findings
failed);  exit 1 + `VIOLATION property=<id> replay=<path>`: a named obligation failed;
exit 2 + `UNDECIDED ...`: the machinery could not decide (lost anchor, unsupported construct,
resource limit) - never an alarm."""
import concurrent.futures
import hashlib
import json
import os
import re
import shutil
import subprocess
import sys
import time

VERIF = os.path.dirname(os.path.dirname(os.path.abspath(__file__)))
sys.path.insert(0, os.path.join(VERIF, 'tools'))
import extract  # noqa: E402
from rustlex import LostAnchor  # noqa: E402

REPO = os.environ.get('VERIF_REPO', '/repo')
CONF = json.load(open(os.path.join(VERIF, 'tools', 'properties_conf.json')))

FAIL_PATTERNS = [
    'postcondition not satisfied', 'precondition not satisfied', 'invariant not satisfied',
    'assertion failed', 'possible arithmetic underflow/overflow', 'possible division by zero',
    'could not prove termination', 'decreases not satisfied', 'loop invariant',
    'possible bit shift underflow/overflow', 'unable to prove assertion safety condition',
    'constructed value may fail to meet its declared type invariant',
    'failed to prove', 'cannot show', 'unable to prove',
]
UNDECIDED_PATTERNS = ['rlimit', 'Resource limit', 'resource limit', 'timed out', 'canceled']


def sh(cmd, cwd=None, timeout=None, env=None):
    t0 = time.time()
    p = subprocess.run(cmd, cwd=cwd, stdout=subprocess.PIPE, stderr=subprocess.PIPE, timeout=timeout, env=env, text=True)
    return p.returncode, p.stdout, p.stderr, time.time() - t0


def tree_sha():
    h = hashlib.sha256()
    for root in ('duckscript/src', 'duckscript_sdk/src', 'duckscript_cli/src'):
        for dp, dn, fn in sorted(os.walk(os.path.join(REPO, root))):
            dn.sort()
            for f in sorted(fn):
                if f.endswith('.rs') or f.endswith('.ds'):
                    p = os.path.join(dp, f)
                    h.update(p.encode())
                    h.update(open(p, 'rb').read())
    return h.hexdigest()[:16]


def run_unit(unit, workdir, rlimit, extra_args=(), auto_items=None, _depth=0):
    """extract + verus. Returns dict(status='ok'|'lost'|'toolerror', ...)"""
    res = dict(unit=unit, failures=[], undecided=[], verified=0, errors=0, smt_ms=0, funcs={}, wall=0.0)
    t0 = time.time()
    try:
        g = extract.Gen(REPO, unit, os.path.join(VERIF, 'units', unit + '.vrs'))
        g.auto_items = dict(auto_items or {})
        g = g.run()
    except LostAnchor as e:
        res['status'] = 'lost'
        res['undecided'].append('lost anchor in unit %s: %s' % (unit, e))
        return res
    rs = g.write(workdir)
    res['ledger'] = g.ledger
    res['report'] = g.report
    lines = [o for _, o in g.out]
    cmd = ['verus', os.path.basename(rs), '--error-format=json', '--output-json', '--time-expanded',
           '--multiple-errors', '30', '--rlimit', str(rlimit)] + list(extra_args)
    res['cmd'] = ' '.join(cmd)
    try:
        rc, out, err, wall = sh(cmd, cwd=workdir, timeout=1500)
    except subprocess.TimeoutExpired:
        res['status'] = 'toolerror'
        res['undecided'].append('verus timed out on unit ' + unit)
        return res
    res['wall'] = time.time() - t0
    try:
        oj = json.loads(out[out.index('{'):])
    except Exception:
        oj = {}
    vr = oj.get('verification-results', {})
    res['verified'] = vr.get('verified', 0)
    res['errors'] = vr.get('errors', 0)
    tm = oj.get('times-ms', {})
    smt = tm.get('smt', {})
    res['smt_ms'] = smt.get('smt-run', 0)
    res['total_ms'] = tm.get('total', 0)
    for mod in smt.get('smt-run-module-times', []):
        for fb in mod.get('function-breakdown', []):
            res['funcs'][fb['function']] = dict(ms=fb.get('time', 0), rlimit=fb.get('rlimit', 0), success=fb.get('success', False), mode=fb.get('mode:', ''))
    # diagnostics
    fn_ranges = [(f['gen_lines'][0], f['gen_lines'][1], f) for f in g.report['functions']]
    ledger_by_line = {}
    for e in g.ledger:
        for tl in e.get('tmpl_lines', [e['tmpl_line']]):
            ledger_by_line[tl] = e

    def fn_at(line):
        for a, b, f in fn_ranges:
            if a <= line <= b:
                return f
        return None

    def org(line):
        return lines[line - 1] if 1 <= line <= len(lines) else None

    gen_text = open(rs).read().split('\n')
    for raw in err.split('\n'):
        raw = raw.strip()
        if not raw.startswith('{'):
            continue
        try:
            d = json.loads(raw)
        except Exception:
            continue
        lvl = d.get('level')
        msg = d.get('message', '')
        if lvl != 'error':
            continue
        if msg.startswith('aborting due to'):
            continue
        spans = d.get('spans', [])
        prim = [s for s in spans if s.get('is_primary')] or spans
        sec = [s for s in spans if not s.get('is_primary')]
        is_fail = any(p in msg for p in FAIL_PATTERNS)
        is_und = any(p in msg for p in UNDECIDED_PATTERNS)
        pl = prim[0]['line_start'] if prim else 0
        po = org(pl)
        rec = dict(message=msg, gen_line=pl, origin=po, rendered=(d.get('rendered') or '')[:4000],
                   gen_text=gen_text[pl - 1].strip() if 0 < pl <= len(gen_text) else '')
        if d.get('code') or not is_fail or is_und:
            rec['class'] = 'undecided'
            res['undecided'].append('%s (unit %s, generated line %d: %s)' % (msg.split('\n')[0][:300], unit, pl, rec['gen_text'][:120]))
            continue
        # locate function, clause and repo location
        f = fn_at(pl)
        clause = None
        src_loc = None
        for s in sorted(spans, key=lambda x: not x.get('is_primary')):
            for ln_ in range(s['line_start'], min(s['line_end'], s['line_start'] + 40) + 1):
                o = org(ln_)
                if not o:
                    continue
                if o[0] == 'ann' and len(o) > 3 and o[3] in ledger_by_line and clause is None:
                    clause = ledger_by_line[o[3]]
                if o[0] == 'src' and src_loc is None and ln_ == s['line_start']:
                    src_loc = '%s:%d' % (o[1], o[2])
            if f is None:
                f = fn_at(s['line_start'])
        # a failing clause that lives in template-only text (lemma / spec) is a machinery problem
        if f is None and clause is None:
            rec['class'] = 'undecided'
            res['undecided'].append('proof obligation in template-only text failed: %s (unit %s line %d: %s)' % (msg, unit, pl, rec['gen_text'][:120]))
            continue
        fname = f['name'] if f else clause['fn']
        if clause is not None and 'precondition' not in msg:
            label = clause['label']
            props = clause['props']
            ctext = clause['text']
        elif 'precondition' in msg:
            # call-site precondition in function f; the failed clause is in the callee
            callee_clause = ''
            for s in sec:
                callee_clause = (s.get('text') or [{}])[0].get('text', '').strip()
            label = '%s.call-pre@%s' % (fname, (src_loc or '?').split(':')[-1])
            props = f['props'] if f else []
            ctext = 'precondition of callee: ' + callee_clause
            if clause is not None:
                label = '%s.call-pre[%s]' % (fname, clause['label'])
        elif 'postcondition' in msg:
            label = fname + ('.run_rel' if fname.endswith('::run') else '.post')
            props = f['props'] if f else []
            ctext = 'postcondition declared outside the function contract (trait-level ensures): ' + msg
        else:
            label = fname + '.safety'
            props = f['props'] if f else []
            ctext = msg
        if src_loc is None and f is not None:
            src_loc = '%s:%d (function %s)' % (f['file'], f['src_lines'][0], fname)
        rec.update(dict(fn=fname, label=label, props=props, clause=ctext, repo_loc=src_loc))
        rec['class'] = 'failed'
        res['failures'].append(rec)
    # a function one of whose (optional) proof hints could not be placed is not decided by a failing proof: the failure may
    # come from the missing hint, not from the code
    dropped = set(d['function'] for d in g.report.get('dropped_hints', []))
    if dropped:
        keep = []
        for rec in res['failures']:
            if rec.get('fn') in dropped:
                res['undecided'].append('a proof hint of %s could not be placed (its anchor statement is gone) and an obligation of that function then failed: %s' % (rec['fn'], rec['label']))
            else:
                keep.append(rec)
        res['failures'] = keep
    if rc != 0 and not res['failures'] and not res['undecided']:
        res['undecided'].append('verus exited %d without a classifiable diagnostic: %s' % (rc, (err or out)[-400:]))
    if rc == 0 and res['errors'] == 0 and res['verified'] == 0:
        res['undecided'].append('unit %s: zero functions verified (vacuous run)' % unit)
    res['status'] = 'ok'
    # R19: an unknown UPPER_CASE value that is a static / const of one of the unit's source files is extracted too
    if res['undecided'] and _depth < 3:
        want = {}
        for u in res['undecided']:
            mm = re.search(r'cannot find value `([A-Z][A-Z0-9_]*)` in this scope', u)
            if mm:
                for rel, (txt, _m) in g.files.items():
                    if re.search(r'\b(static|const)\s+%s\b' % re.escape(mm.group(1)), txt):
                        want.setdefault(rel, [])
                        if mm.group(1) not in want[rel]:
                            want[rel].append(mm.group(1))
        merged = {k: list(v) for k, v in (auto_items or {}).items()}
        grew = False
        for rel, names in want.items():
            for nm in names:
                if nm not in merged.setdefault(rel, []):
                    merged[rel].append(nm)
                    grew = True
        if grew:
            return run_unit(unit, workdir, rlimit, extra_args, merged, _depth + 1)
    return res


def canary(workdir):
    """trusted prelude + assert(false) must FAIL (inconsistent axioms would make it pass)."""
    pre = open(os.path.join(VERIF, 'trusted', 'prelude.rs')).read()
    src = ('use vstd::prelude::*;\nverus!{\n' + pre + '\nbroadcast use crate::trusted::strings;\n'
           'proof fn canary_false() { assert(false); }\n'
           'proof fn canary_str(a: String, b: String) requires a@ == b@ { assert(a == b); }\n}\nfn main(){}\n')
    p = os.path.join(workdir, 'canary.rs')
    open(p, 'w').write(src)
    rc, out, err, _ = sh(['verus', 'canary.rs', '--output-json'], cwd=workdir, timeout=300)
    try:
        oj = json.loads(out[out.index('{'):])
        vr = oj['verification-results']
        # expected: canary_false fails (1 error); everything else verifies
        return vr.get('errors', 0) == 1 and not vr.get('encountered-vir-error', False), vr
    except Exception as e:
        return False, dict(error=str(e), tail=(err or out)[-300:])


def load_known():
    p = os.path.join(VERIF, 'known_findings.json')
    if not os.path.exists(p):
        return []
    return json.load(open(p)).get('findings', [])


def write_evidence(pid, ev):
    # evidence committed under /verif/evidence must come from /repo itself; runs against a scratch
    # tree (VERIF_REPO=...) write elsewhere
    edir = os.path.join(VERIF, 'evidence') if os.path.realpath(REPO) == '/repo' else os.path.join(VERIF, 'build', 'scratch-evidence')
    os.makedirs(edir, exist_ok=True)
    p = os.path.join(edir, pid + '.json')
    tmp = p + '.tmp.%d' % os.getpid()
    json.dump(ev, open(tmp, 'w'), indent=1)
    os.replace(tmp, p)


def main():
    args = sys.argv[1:]
    pid = args[0]
    tier = os.environ.get('VERIF_TIER', 'quick')
    replay = None
    if '--tier' in args:
        tier = args[args.index('--tier') + 1]
    if '--replay' in args:
        replay = args[args.index('--replay') + 1]
    seed = int(os.environ.get('VERIF_SEED', '0') or 0)
    if pid not in CONF['properties']:
        print('unknown property ' + pid)
        sys.exit(2)
    pc = CONF['properties'][pid]
    t0 = time.time()
    import finder_driver
    if replay:
        sys.exit(finder_driver.replay(pid, replay, REPO))
    work = os.path.join(VERIF, 'build', '%s.%d' % (pid, os.getpid()))
    os.makedirs(work, exist_ok=True)
    try:
        rc = decide(pid, pc, tier, seed, work, t0, finder_driver)
    finally:
        shutil.rmtree(work, ignore_errors=True)
    sys.exit(rc)


def vacuity_pass(units, work, rlimit):
    """thorough tier: every function under contract gets `assert(false)` as its first statement in a copy of the
    unit; the probe must fail everywhere. Returns (n_functions, [functions whose entry is unreachable], [problems])"""
    total = 0
    unreachable = []
    problems = []
    for unit in units:
        wd = os.path.join(work, 'vacuity')
        os.makedirs(wd, exist_ok=True)
        try:
            g = extract.Gen(REPO, unit, os.path.join(VERIF, 'units', unit + '.vrs'), vacuity=True).run()
        except LostAnchor as e:
            problems.append('vacuity pass: lost anchor in unit %s: %s' % (unit, e))
            continue
        rs = g.write(wd)
        gen_text = open(rs).read().split('\n')
        probes = {}
        for i, ln in enumerate(gen_text):
            if 'VACUITY-PROBE ' in ln:
                probes[i + 1] = ln.split('VACUITY-PROBE ')[1].strip()
        cmd = ['verus', os.path.basename(rs), '--error-format=json', '--multiple-errors', '2', '--rlimit', str(rlimit)]
        try:
            rc, out, err, wall = sh(cmd, cwd=wd, timeout=1500)
        except subprocess.TimeoutExpired:
            problems.append('vacuity pass: verus timed out on unit ' + unit)
            continue
        hit = set()
        for raw in err.split('\n'):
            raw = raw.strip()
            if not raw.startswith('{'):
                continue
            try:
                d = json.loads(raw)
            except Exception:
                continue
            if d.get('level') != 'error' or 'assertion failed' not in d.get('message', ''):
                continue
            for sp in d.get('spans', []):
                if sp.get('line_start') in probes:
                    hit.add(sp['line_start'])
        total += len(probes)
        for ln, fn in probes.items():
            if ln not in hit:
                unreachable.append('%s (unit %s)' % (fn, unit))
    return total, unreachable, problems


def find_streams(finder_driver, pid, seed, budget, n):
    """n independent sample streams side by side (seeds seed*8 .. seed*8+n-1); the first unknown counterexample wins"""
    finder_driver.build(REPO)   # once, before the streams start
    if pid == 'C20' and REPO not in finder_driver._DUCK:
        finder_driver._DUCK[REPO] = finder_driver.build_duck(REPO)   # the real `duck` binary, built once
    with concurrent.futures.ThreadPoolExecutor(max_workers=n) as ex:
        runs = list(ex.map(lambda k: finder_driver.find(pid, seed * 8 + k, budget, REPO, None), range(n)))
    hits = [x for x in runs if x and x.get('found') and not finder_driver.is_known_input(pid, x, load_known())]
    if hits:
        return hits[0]
    errs = [x.get('error') for x in runs if x and x.get('error')]
    return dict(found=False, evaluations=sum((x or {}).get('evaluations') or 0 for x in runs), streams=n,
                known_class_hits=sum((x or {}).get('known_class_hits') or 0 for x in runs), error=errs[0] if errs else None,
                note=(runs[0] or {}).get('note'))


def decide(pid, pc, tier, seed, work, t0, finder_driver):
    units = pc['units']
    rlimit = CONF.get('rlimit', 20) * (2 if tier == 'thorough' else 1)
    results = []
    with concurrent.futures.ThreadPoolExecutor(max_workers=8) as ex:
        futs = {ex.submit(run_unit, u, work, rlimit): u for u in units}
        fc = ex.submit(canary, work)
        for f in futs:
            results.append(f.result())
        canary_ok, canary_info = fc.result()
    for r in results:
        for fa in (r.get('report') or {}).get('fuzzy_anchors', []):
            print('NOTE: unit %s: the statement a proof hint of %s is anchored on was edited; the hint is placed at the one line that starts like it: `%s` (was `%s`)' % (r['unit'], fa['function'], fa['matched'], fa['anchor']))
    # retry undecided-by-resource units once with 4x rlimit
    for i, r in enumerate(results):
        if r['undecided'] and any(any(p in u for p in UNDECIDED_PATTERNS) for u in r['undecided']) and r.get('status') == 'ok':
            r2 = run_unit(r['unit'], work, rlimit * 4, ['--smt-option', 'smt.random_seed=7'])
            if not r2['undecided']:
                results[i] = r2
    # a failed obligation is re-tried under two other solver configurations (random seeds, 2x resource limit): any
    # successful proof is a proof, so an obligation counts as failed only when it fails under every configuration.
    # This keeps proofs that depend on the solver's quantifier-instantiation luck from turning into alarms.
    retried = {}
    for i, r in enumerate(results):
        if r['failures'] and r.get('status') == 'ok':
            still = {f['label'] for f in r['failures']}
            first = len(still)
            for seed_ in (7, 23):
                if not still:
                    break
                r2 = run_unit(r['unit'], work, rlimit * 2, ['--smt-option', 'smt.random_seed=%d' % seed_, '--smt-option', 'sat.random_seed=%d' % seed_])
                if r2.get('status') != 'ok' or r2['undecided']:
                    continue
                still &= {f['label'] for f in r2['failures']}
                r['smt_ms'] = r.get('smt_ms', 0) + r2.get('smt_ms', 0)
            retried[r['unit']] = dict(failed_first=first, failed_under_every_configuration=len(still))
            if len(still) < first:
                print('NOTE: unit %s: %d of %d failed obligation(s) were discharged under another solver configuration' % (r['unit'], first - len(still), first))
            r['failures'] = [f for f in r['failures'] if f['label'] in still]
    undecided = []
    if not canary_ok:
        undecided.append('canary failed: trusted prelude may be inconsistent or verus unusable: %s' % canary_info)
    failures = []
    ledger = []
    functions = []
    funcs_time = {}
    smt_ms = 0
    verified = 0
    for r in results:
        undecided += r['undecided']
        smt_ms += r.get('smt_ms', 0)
        verified += r.get('verified', 0)
        for f in r['failures']:
            f['unit'] = r['unit']
            failures.append(f)
        for e in r.get('ledger', []):
            e = dict(e)
            e['unit'] = r['unit']
            ledger.append(e)
        for f in r.get('report', {}).get('functions', []):
            # the same source function may be under contract in several units (re-verified there): list it once
            dup = [x for x in functions if x['file'] == f['file'] and x['src_lines'] == f['src_lines'] and x['sha256'] == f['sha256'][:12]]
            if dup:
                dup[0]['unit'] += ',' + r['unit']
                dup[0]['props'] = sorted(set(dup[0]['props']) | set(f['props']))
                continue
            functions.append(dict(unit=r['unit'], name=f['name'], file=f['file'], src_lines=f['src_lines'], props=f['props'], sha256=f['sha256'][:12]))
        funcs_time.update(r.get('funcs', {}))
    # obligations relevant to this property
    mine = [e for e in ledger if pid in e['props']]
    my_fail = [f for f in failures if pid in f['props']]
    if pc.get('safety_only'):
        # C07: only Verus' implicit obligations (bounds, unwrap, overflow, unreachable panic, std panic
        # preconditions at call sites) and termination count; functional clauses belong to other properties
        mine = [e for e in mine if e['kind'] in ('implicit', 'decreases')]
        def _is_safety(f):
            return f['label'].endswith('.safety') or '.call-pre' in f['label'] or 'termination' in f['message'] or 'decreases' in f['message']
        my_fail = [f for f in my_fail if _is_safety(f)]
    other_fail = [f for f in failures if f not in my_fail]
    failed_labels = set(f['label'] for f in my_fail)
    failed_fns = set((f['unit'], f['fn']) for f in my_fail)
    # an obligation counts as discharged only if its function has no failed obligation attributed
    # to it at all (Verus reports a function as verified or not)
    all_failed_fns = set((f['unit'], f['fn']) for f in failures)
    discharged = [e for e in mine if (e['unit'], e['fn']) not in all_failed_fns]
    known = [k for k in load_known() if k['property'] == pid and k.get('status', 'open') == 'open']
    known_labels = {k['obligation']: k for k in known if k.get('obligation')}
    out_lines = []
    rc = 0
    rdir = os.path.join(VERIF, 'replay', pid)
    shutil.rmtree(rdir, ignore_errors=True)
    os.makedirs(rdir, exist_ok=True)
    sha = tree_sha()
    new_viol = []
    known_hit = []
    for f in my_fail:
        if f['label'] in known_labels:
            k = known_labels[f['label']]
            # the witness must still fail on the current tree
            still = finder_driver.witness_fails(pid, k, REPO)
            if still is None or still:
                known_hit.append((f, k))
                continue
        new_viol.append(f)
    if undecided and not new_viol:
        for u in undecided:
            print('UNDECIDED property=%s reason=%s' % (pid, u))
        # the contracts could not be attached / decided (e.g. the function was restructured): fall back to
        # replaying sampled inputs of the property's domain on the real code; only a concrete failing input
        # that replays counts as a violation - otherwise the answer stays "undecided" (exit 2, no alarm)
        hit = find_streams(finder_driver, pid, seed, 30 if tier == 'quick' else 180, 4 if tier == 'quick' else 8)
        ev = evidence(pid, pc, tier, seed, t0, mine, discharged, functions, results, smt_ms, verified, failures, undecided, known_hit, [], funcs_time, sha)
        ev['coverage']['undecided'] = undecided
        ev['coverage']['fallback_finder'] = {k: hit.get(k) for k in ('evaluations', 'found', 'error', 'note')} if hit else None
        if hit and hit.get('found'):
            rp = os.path.join(VERIF, 'replay', pid, 'undecided_fallback.json')
            json.dump(dict(property=pid, obligation='contracts undecided (%s); violation established by replay on the real code' % undecided[0][:200],
                           counterexample=hit, replay_cmd='./check %s --replay %s' % (pid, rp), tree_sha=sha), open(rp, 'w'), indent=1)
            print('VIOLATION property=%s replay=%s obligation=undecided-contracts-replayed-counterexample' % (pid, rp))
            ev['violations'] = 1
            write_evidence(pid, ev)
            return 1
        write_evidence(pid, ev)
        return 2
    finder_info = None
    seen = set()
    for f in new_viol:
        if f['label'] in seen:
            continue
        seen.add(f['label'])
        safe = re.sub(r'[^A-Za-z0-9_.-]', '_', f['label'])
        rp = os.path.join(VERIF, 'replay', pid, safe + '.json')
        rep = dict(property=pid, obligation=f['label'], function=f['fn'], unit=f['unit'], clause=f['clause'],
                   verus_message=f['message'], repo_location=f['repo_loc'], verus_output=f['rendered'], tree_sha=sha,
                   counterexample=None)
        budget = 20 if tier == 'quick' else 120
        hit = finder_driver.find(pid, seed, budget, REPO, f)
        finder_info = hit
        if hit and hit.get('found'):
            rep['counterexample'] = hit
            rep['replay_cmd'] = './check %s --replay %s' % (pid, rp)
            json.dump(rep, open(rp, 'w'), indent=1)
            print('VIOLATION property=%s replay=%s obligation=%s' % (pid, rp, f['label']))
        else:
            rep['finder'] = hit
            json.dump(rep, open(rp, 'w'), indent=1)
            print('VIOLATION property=%s replay=%s obligation=%s no-failing-input-found' % (pid, rp, f['label']))
        rc = 1
    printed = set()
    # property-specific extra checks on the real tree (not Verus): C19 script.ds scan
    extra_info = None
    if pc.get('extra') == 'scan_scripts':
        import scan_scripts
        extra_info = scan_scripts.scan(REPO)
        if extra_info['violations']:
            rp = os.path.join(VERIF, 'replay', pid, 'script_scan.json')
            json.dump(dict(property=pid, obligation='script.ds assignment targets lie under the command scope prefix', violations=extra_info['violations'], tree_sha=sha), open(rp, 'w'), indent=1)
            print('VIOLATION property=%s replay=%s obligation=script-scan' % (pid, rp))
            rc = 1
    for (f, k) in known_hit:
        print('KNOWN-FINDING: property=%s %s: %s' % (pid, f['label'], k['what']))
        printed.add(id(k))
    # listed findings that no contract expresses (found by replay on the real code): still failing?
    for k in known:
        if id(k) in printed:
            continue
        still = finder_driver.witness_fails(pid, k, REPO)
        if still:
            print('KNOWN-FINDING: property=%s %s: %s' % (pid, k.get('class') or k.get('obligation'), k['what']))
            known_hit.append((dict(label=k.get('class') or k.get('obligation')), k))
        elif still is False:
            print('NOTE: listed finding no longer reproduces on this tree: %s' % k['what'])
    for f in other_fail:
        print('NOTE: obligation %s failed in unit %s (attributed to %s, not to %s)' % (f['label'], f['unit'], ','.join(f['props']), pid))
    # thorough tier: run the finder even when all obligations were discharged
    sampled = None
    fbudget = 120 if tier == 'thorough' else CONF.get('quick_finder_s', 6)
    if rc == 0 and pid in finder_driver.SUPPORTED and fbudget > 0:
        # every obligation was discharged: additionally replay sampled inputs of the property's domain on the
        # real code (sampled, never counted as discharged); a hit means a hole in a contract or in the trusted base
        # quick: four independent sample streams side by side; thorough: eight, 120 s each
        sampled = find_streams(finder_driver, pid, seed, fbudget, 8 if tier == 'thorough' else 4)
        if sampled and sampled.get('found') and not finder_driver.is_known_input(pid, sampled, load_known()):
            rp = os.path.join(VERIF, 'replay', pid, 'finder.json')
            json.dump(dict(property=pid, obligation='(none failed: hole in a contract or in the trusted base)', counterexample=sampled,
                           replay_cmd='./check %s --replay %s' % (pid, rp), tree_sha=sha), open(rp, 'w'), indent=1)
            print('VIOLATION property=%s replay=%s obligation=none-failed-but-sampled-replay-on-real-code-found-a-counterexample' % (pid, rp))
            rc = 1
    vac = None
    if rc == 0 and tier == 'thorough':
        # vacuity guard: the entry of every function under contract must be reachable (assert(false) there must fail)
        vt, vun, vprob = vacuity_pass(units, work, rlimit)
        vac = dict(functions_probed=vt, entry_unreachable=vun, problems=vprob)
        if vun or vprob:
            for x in vun:
                print('UNDECIDED property=%s reason=vacuous contract: assert(false) at the entry of %s verifies (contradictory precondition or assumption)' % (pid, x))
            for x in vprob:
                print('UNDECIDED property=%s reason=%s' % (pid, x))
            rc = 2
    stub_audit = None
    if rc == 0 and tier == 'thorough':
        # stub audit: every hand-written stub that stands for a function verified in another unit must claim no more
        # than that unit proves (tools/audit_stubs.py)
        try:
            import audit_stubs
            ar = []
            with concurrent.futures.ThreadPoolExecutor(max_workers=6) as ex:
                for r_ in ex.map(audit_stubs.audit_unit, units):
                    ar += r_
            bad = [a for a in ar if a['result'] == 'NOT implied']
            stub_audit = dict(stubs=len(ar), implied=len([a for a in ar if a['result'] == 'implied']),
                              not_checkable=['%s <- %s::%s (%s)' % (a['unit'], a['proved_in'], a['function'], a.get('why', '')[:120]) for a in ar if a['result'] == 'not checkable'],
                              not_implied=['%s <- %s::%s (%s)' % (a['unit'], a['proved_in'], a['function'], a.get('why', '')[:120]) for a in bad])
            for a in bad:
                print('UNDECIDED property=%s reason=stub of %s in unit %s claims more than unit %s proves (%s)' % (pid, a['function'], a['unit'], a['proved_in'], a.get('why', '')[:100]))
            if bad:
                rc = 2
        except Exception as e:
            stub_audit = dict(error=str(e)[:200])
    ev = evidence(pid, pc, tier, seed, t0, mine, discharged, functions, results, smt_ms, verified, failures, undecided, known_hit, new_viol, funcs_time, sha)
    if stub_audit is not None:
        ev['coverage']['stub_audit'] = stub_audit
    if vac is not None:
        ev['coverage']['vacuity_probe'] = vac
    if retried:
        ev['coverage']['solver_retries'] = retried
    if extra_info is not None:
        ev['coverage']['script_scan'] = dict(files=extra_info['files'], assignments=extra_info['assignments'], violations=len(extra_info['violations']))
    if sampled is not None:
        ev['coverage']['finder_sampled'] = {k: sampled.get(k) for k in ('evaluations', 'found', 'domain') if sampled}
    write_evidence(pid, ev)
    if rc == 0:
        print('OK property=%s obligations=%d discharged=%d functions=%d smt_ms=%d wall_s=%.1f%s' % (
            pid, len(mine), len(discharged), len([f for f in functions if pid in f['props']]), smt_ms, time.time() - t0,
            (' known_findings=%d' % len(known_hit)) if known_hit else ''))
    return rc


def evidence(pid, pc, tier, seed, t0, mine, discharged, functions, results, smt_ms, verified, failures, undecided, known_hit, new_viol, funcs_time, sha):
    trusted = list(CONF.get('trusted_base_global', []))
    trusted += pc.get('trusted_base', [])
    rules = {}
    for r in results:
        for k, v in r.get('report', {}).get('rules_applied', {}).items():
            rules[k] = rules.get(k, 0) + v
    # 'proof' describes what the run did: every listed obligation discharged by Verus on this tree. A listed known
    # finding that is keyed by an obligation label means that obligation failed (then this is not 'proof'); one keyed
    # by a finder class lies outside the obligations and is reported next to the level, not instead of it.
    label_known = [k for _f, k in known_hit if k.get('obligation')]
    level = 'proof' if (len(discharged) == len(mine) and mine and not undecided and not label_known and pc.get('category', 'proof') == 'proof') else 'other'
    slow = {k: v for k, v in funcs_time.items() if v.get('ms', 0) > 20000}
    ev = dict(
        property_id=pid, tier=tier, seed=seed, level=level,
        coverage=dict(
            obligations=len(mine), discharged=len(discharged),
            checker_cmd='; '.join(r.get('cmd', '') + ' (unit %s, re-extracted from %s this run)' % (r['unit'], REPO) for r in results),
            trusted_base=trusted,
            backend='verus 0.2026.09.13 / z3 (bundled)',
            explanation=pc.get('scope', ''),
            functions_under_contract=[f for f in functions if pid in f['props']],
            verus_functions_verified=verified,
            smt_ms=smt_ms,
            unit_wall_s={r['unit']: round(r.get('wall', 0), 2) for r in results},
            samples=[dict(obligation=e['label'], function=e['fn'], kind=e['kind'], clause=e['text'][:200]) for e in mine[:12]],
            all_obligation_labels=[e['label'] for e in mine],
            failed_obligations=[dict(label=f['label'], fn=f['fn'], message=f['message'], repo=f['repo_loc']) for f in failures if pid in f['props']],
            known_findings=[dict(label=f['label'], what=k['what']) for f, k in known_hit],
            rewrite_rules_applied=rules,
            approximate_anchors=[fa for r in results for fa in (r.get('report') or {}).get('fuzzy_anchors', [])],
            bounded=pc.get('bounded', []),
            not_decided=pc.get('not_decided', []),
            slow_functions=slow,
            tree_sha=sha,
            exhaustive=False,
        ),
        assumptions=trusted + pc.get('assumptions', []),
        wall_s=round(time.time() - t0, 2),
        violations=len(new_viol),
    )
    return ev


if __name__ == '__main__':
    main()
