#!/usr/bin/env python3
"""Confirms a seeded change in a scratch worktree and runs our checks against it.
usage: seed_confirm.py <seed_name> <agent_out_dir> <crate> <property-ids,comma> [demo_rel_path]
 - copies patch.diff + demo into /verif/seeded/<seed_name>/
 - scratch worktree /tmp/wt_seed (removed afterwards): demo passes without the patch, fails with it,
   baseline suite still passes with the patch
 - runs ./check <id> with VERIF_REPO pointing at the patched scratch tree, records which obligations fire"""
import json, os, re, shutil, subprocess, sys
name, out_dir, crate, props = sys.argv[1:5]
props = props.split(',')
V = '/verif'
sd = os.path.join(V, 'seeded', name)
os.makedirs(sd, exist_ok=True)
demo_src = [f for f in os.listdir(out_dir) if f.endswith('.rs')]
for f in ['patch.diff', 'NOTES.md'] + demo_src:
    if os.path.exists(os.path.join(out_dir, f)) and os.path.realpath(out_dir) != os.path.realpath(sd):
        shutil.copy(os.path.join(out_dir, f), os.path.join(sd, f))
crate_dir = {'duckscript': 'duckscript', 'duckscriptsdk': 'duckscript_sdk', 'duckscript_cli': 'duckscript_cli'}[crate]
wt = os.environ.get('WT_SEED', '/tmp/wt_seed')
# the build output of the scratch tree lives next to it and is reused by the next seed confirmed in the same lane
os.environ['CARGO_TARGET_DIR'] = wt + '_target'
def sh(cmd, cwd=None, timeout=3000):
    p = subprocess.run(cmd, shell=True, cwd=cwd, stdout=subprocess.PIPE, stderr=subprocess.STDOUT, text=True, timeout=timeout)
    return p.returncode, p.stdout
sh('git -C /repo worktree remove --force %s' % wt)
rc, o = sh('git -C /repo worktree add -q --detach %s HEAD' % wt)
meta = dict(seed=name, properties=props, crate=crate, ran=[])
try:
    os.makedirs(os.path.join(wt, crate_dir, 'tests'), exist_ok=True)
    for f in demo_src:
        shutil.copy(os.path.join(sd, f), os.path.join(wt, crate_dir, 'tests', f))
    tests = ' '.join('--test ' + f[:-3] for f in demo_src)
    cmd = 'cargo test -p %s --offline %s 2>&1 | grep -E "^test result|FAILED|panicked|signal:|overflowed its stack" | head -8' % (crate, tests)
    rc, o = sh(cmd, cwd=wt)
    clean_ok = 'FAILED' not in o and 'test result: ok' in o
    meta['ran'].append(dict(cmd=cmd, tree='unpatched', passed=clean_ok, output=o[-600:]))
    rc, o = sh('git apply %s' % os.path.join(sd, 'patch.diff'), cwd=wt)
    meta['patch_applies'] = rc == 0
    rc, o = sh(cmd, cwd=wt)
    # (a demo that kills the test binary - abort, stack overflow - prints no test result at all)
    patched_fails = 'FAILED' in o or 'test result: FAILED' in o or 'signal:' in o or 'overflowed its stack' in o or (meta['patch_applies'] and 'test result: ok' not in o)
    meta['ran'].append(dict(cmd=cmd, tree='patched', passed=not patched_fails, output=o[-600:]))
    rc, o = sh('python3 %s/tools/baseline_check.py %s' % (V, wt))
    meta['baseline_with_patch'] = o.strip().split('\n')[0]
    meta['baseline_ok'] = rc == 0
    meta['confirmed'] = bool(clean_ok and patched_fails and meta['patch_applies'] and meta['baseline_ok'])
    det = {}
    for pid in props:
        env = dict(os.environ, VERIF_REPO=wt)
        p = subprocess.run(['./check', pid], cwd=V, env=env, stdout=subprocess.PIPE, stderr=subprocess.STDOUT, text=True)
        lines = [l for l in p.stdout.split('\n') if l.startswith(('VIOLATION', 'UNDECIDED', 'OK', 'KNOWN'))]
        det[pid] = dict(exit=p.returncode, lines=[l[:300] for l in lines[:6]])
    meta['detection'] = det
    meta['detected_by'] = [pid for pid, d in det.items() if d['exit'] == 1]
finally:
    sh('git -C /repo worktree remove --force %s' % wt)
json.dump(meta, open(os.path.join(sd, 'meta.json'), 'w'), indent=1)
print(json.dumps({k: meta[k] for k in ('seed', 'confirmed', 'baseline_ok', 'detected_by')}, indent=0))
for pid, d in meta.get('detection', {}).items():
    print(pid, d['exit'], *d['lines'][:3], sep='\n   ')
