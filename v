# Table of Contents
* [`fs::zip::Unzip` (unzip)](#fs__zip__Unzip)
* [`fs::zip::Zip` (zip)](#fs__zip__Zip)
* [`internal::SDKDocsGen`](#internal__SDKDocsGen)
* [`std::Echo` (echo)](#std__Echo)
* [`std::Eval` (eval)](#std__Eval)
* [`std::IsCommandDefined` (is_command_defined)](#std__IsCommandDefined)
* [`std::Noop` (noop)](#std__Noop)
* [`std::Not` (not)](#std__Not)
* [`std::Print` (print)](#std__Print)
* [`std::Println` (println)](#std__Println)
* [`std::ReadUserInput` (read)](#std__ReadUserInput)
* [`std::Release` (release)](#std__Release)
* [`std::ShowCommandDocumentation` (man)](#std__ShowCommandDocumentation)
* [`std::collections`](#std__collections)
* [`std::collections::Array` (array)](#std__collections__Array)
* [`std::collections::ArrayClear` (array_clear)](#std__collections__ArrayClear)
* [`std::collections::ArrayConcat` (array_concat)](#std__collections__ArrayConcat)
* [`std::collections::ArrayContains` (array_contains)](#std__collections__ArrayContains)
* [`std::collections::ArrayGet` (array_get)](#std__collections__ArrayGet)
* [`std::collections::ArrayIsEmpty` (array_is_empty)](#std__collections__ArrayIsEmpty)
* [`std::collections::ArrayJoin` (array_join)](#std__collections__ArrayJoin)
* [`std::collections::ArrayLength` (array_length, arrlen, array_size)](#std__collections__ArrayLength)
* [`std::collections::ArrayPop` (array_pop)](#std__collections__ArrayPop)
* [`std::collections::ArrayPush` (array_push, array_add, array_put)](#std__collections__ArrayPush)
* [`std::collections::ArrayRemove` (array_remove)](#std__collections__ArrayRemove)
* [`std::collections::ArraySet` (array_set)](#std__collections__ArraySet)
* [`std::collections::IsArray` (is_array)](#std__collections__IsArray)
* [`std::collections::IsMap` (is_map)](#std__collections__IsMap)
* [`std::collections::IsSet` (is_set)](#std__collections__IsSet)
* [`std::collections::Map` (map)](#std__collections__Map)
* [`std::collections::MapClear` (map_clear)](#std__collections__MapClear)
* [`std::collections::MapContainsKey` (map_contains_key)](#std__collections__MapContainsKey)
* [`std::collections::MapContainsValue` (map_contains_value)](#std__collections__MapContainsValue)
* [`std::collections::MapGet` (map_get)](#std__collections__MapGet)
* [`std::collections::MapIsEmpty` (map_is_empty)](#std__collections__MapIsEmpty)
* [`std::collections::MapKeys` (map_keys)](#std__collections__MapKeys)
* [`std::collections::MapLoadProperties` (map_load_properties)](#std__collections__MapLoadProperties)
* [`std::collections::MapPut` (map_put, map_add)](#std__collections__MapPut)
* [`std::collections::MapRemove` (map_remove)](#std__collections__MapRemove)
* [`std::collections::MapSize` (map_size)](#std__collections__MapSize)
* [`std::collections::MapToProperties` (map_to_properties)](#std__collections__MapToProperties)
* [`std::collections::Range` (range)](#std__collections__Range)
* [`std::collections::ReadProperties` (read_properties)](#std__collections__ReadProperties)
* [`std::collections::Set` (set_new)](#std__collections__Set)
* [`std::collections::SetClear` (set_clear)](#std__collections__SetClear)
* [`std::collections::SetContains` (set_contains)](#std__collections__SetContains)
* [`std::collections::SetFromArray` (set_from_array)](#std__collections__SetFromArray)
* [`std::collections::SetIsEmpty` (set_is_empty)](#std__collections__SetIsEmpty)
* [`std::collections::SetPut` (set_put, set_add)](#std__collections__SetPut)
* [`std::collections::SetRemove` (set_remove)](#std__collections__SetRemove)
* [`std::collections::SetSize` (set_size)](#std__collections__SetSize)
* [`std::collections::SetToArray` (set_to_array)](#std__collections__SetToArray)
* [`std::collections::WriteProperties` (write_properties)](#std__collections__WriteProperties)
* [`std::debug::DuckscriptSDKVersion` (duckscript_sdk_version)](#std__debug__DuckscriptSDKVersion)
* [`std::debug::DuckscriptVersion` (duckscript_version)](#std__debug__DuckscriptVersion)
* [`std::debug::DumpInstructions` (dump_instructions)](#std__debug__DumpInstructions)
* [`std::debug::DumpState` (dump_state)](#std__debug__DumpState)
* [`std::debug::DumpVariables` (dump_variables)](#std__debug__DumpVariables)
* [`std::env::EnvToMap` (env_to_map)](#std__env__EnvToMap)
* [`std::env::FindExecutable` (which)](#std__env__FindExecutable)
* [`std::env::GetCpuCount` (cpu_count, get_cpu_count)](#std__env__GetCpuCount)
* [`std::env::GetHomeDirectory` (get_home_dir)](#std__env__GetHomeDirectory)
* [`std::env::GetOSFamily` (os_family)](#std__env__GetOSFamily)
* [`std::env::GetOSName` (os_name)](#std__env__GetOSName)
* [`std::env::GetOSRelease` (os_release)](#std__env__GetOSRelease)
* [`std::env::GetOSVersion` (os_version)](#std__env__GetOSVersion)
* [`std::env::GetUserName` (whoami, get_user_name)](#std__env__GetUserName)
* [`std::env::GetVar` (get_env)](#std__env__GetVar)
* [`std::env::IsWindows` (is_windows)](#std__env__IsWindows)
* [`std::env::PrintCurrentDirectory` (pwd, print_current_directory)](#std__env__PrintCurrentDirectory)
* [`std::env::PrintEnv` (print_env, printenv)](#std__env__PrintEnv)
* [`std::env::SetCurrentDirectory` (cd, set_current_dir, set_current_directory)](#std__env__SetCurrentDirectory)
* [`std::env::SetVar` (set_env)](#std__env__SetVar)
* [`std::env::UName` (uname)](#std__env__UName)
* [`std::env::UnsetVar` (unset_env)](#std__env__UnsetVar)
* [`std::error::GetLastError` (get_last_error)](#std__error__GetLastError)
* [`std::error::GetLastErrorLine` (get_last_error_line)](#std__error__GetLastErrorLine)
* [`std::error::GetLastErrorSource` (get_last_error_source)](#std__error__GetLastErrorSource)
* [`std::error::SetError` (set_error)](#std__error__SetError)
* [`std::error::SetExitOnError` (exit_on_error, set_exit_on_error)](#std__error__SetExitOnError)
* [`std::error::TriggerError` (trigger_error)](#std__error__TriggerError)
* [`std::flowcontrol::ForIn` (for)](#std__flowcontrol__ForIn)
* [`std::flowcontrol::Function` (function, fn)](#std__flowcontrol__Function)
* [`std::flowcontrol::GoTo` (goto)](#std__flowcontrol__GoTo)
* [`std::flowcontrol::If` (if)](#std__flowcontrol__If)
* [`std::flowcontrol::While` (while)](#std__flowcontrol__While)
* [`std::fs::Append` (appendfile)](#std__fs__Append)
* [`std::fs::CPGlob` (glob_cp, cp_glob)](#std__fs__CPGlob)
* [`std::fs::CopyPath` (cp)](#std__fs__CopyPath)
* [`std::fs::CreateDirectory` (mkdir)](#std__fs__CreateDirectory)
* [`std::fs::CreateEmptyFile` (touch)](#std__fs__CreateEmptyFile)
* [`std::fs::DeleteEmptyDirectory` (rmdir)](#std__fs__DeleteEmptyDirectory)
* [`std::fs::DeletePath` (rm)](#std__fs__DeletePath)
* [`std::fs::Exists` (is_path_exists)](#std__fs__Exists)
* [`std::fs::GetCanonicalPath` (canonicalize)](#std__fs__GetCanonicalPath)
* [`std::fs::GetFileName` (basename)](#std__fs__GetFileName)
* [`std::fs::GetFileSize` (get_file_size, filesize)](#std__fs__GetFileSize)
* [`std::fs::GetLastModifiedTime` (get_last_modified_time)](#std__fs__GetLastModifiedTime)
* [`std::fs::GetParentDirectory` (dirname)](#std__fs__GetParentDirectory)
* [`std::fs::GitIgnorePathArray` (gitignore_path_array)](#std__fs__GitIgnorePathArray)
* [`std::fs::GlobArray` (glob_array, globarray)](#std__fs__GlobArray)
* [`std::fs::IsDirectory` (is_directory, is_dir)](#std__fs__IsDirectory)
* [`std::fs::IsFile` (is_file)](#std__fs__IsFile)
* [`std::fs::IsPathNewer` (is_path_newer)](#std__fs__IsPathNewer)
* [`std::fs::IsReadonly` (is_readonly)](#std__fs__IsReadonly)
* [`std::fs::JoinPath` (join_path)](#std__fs__JoinPath)
* [`std::fs::List` (ls)](#std__fs__List)
* [`std::fs::MovePath` (mv)](#std__fs__MovePath)
* [`std::fs::Print` (cat)](#std__fs__Print)
* [`std::fs::ReadBytes` (readbinfile, read_binary_file)](#std__fs__ReadBytes)
* [`std::fs::ReadText` (readfile, read_text_file)](#std__fs__ReadText)
* [`std::fs::SetMode` (chmod)](#std__fs__SetMode)
* [`std::fs::SetModeGlob` (glob_chmod, chmod_glob)](#std__fs__SetModeGlob)
* [`std::fs::TempDirectory` (temp_dir)](#std__fs__TempDirectory)
* [`std::fs::TempFile` (temp_file)](#std__fs__TempFile)
* [`std::fs::WriteBytes` (writebinfile, write_binary_file)](#std__fs__WriteBytes)
* [`std::fs::WriteText` (writefile, write_text_file)](#std__fs__WriteText)
* [`std::hash::Digest` (digest)](#std__hash__Digest)
* [`std::hash::Sha256Sum` (sha256sum, sha256sum)](#std__hash__Sha256Sum)
* [`std::hash::Sha512Sum` (sha512sum, sha512sum)](#std__hash__Sha512Sum)
* [`std::json`](#std__json)
* [`std::json::Encode` (json_encode)](#std__json__Encode)
* [`std::json::Parse` (json_parse)](#std__json__Parse)
* [`std::lib::alias::Set` (alias)](#std__lib__alias__Set)
* [`std::lib::alias::Unset` (unalias)](#std__lib__alias__Unset)
* [`std::lib::command::Remove` (remove_command)](#std__lib__command__Remove)
* [`std::math::Calc` (calc)](#std__math__Calc)
* [`std::math::GreaterThan` (greater_than)](#std__math__GreaterThan)
* [`std::math::HexDecode` (hex_decode)](#std__math__HexDecode)
* [`std::math::HexEncode` (hex_encode)](#std__math__HexEncode)
* [`std::math::LessThan` (less_than)](#std__math__LessThan)
* [`std::net::Hostname` (hostname)](#std__net__Hostname)
* [`std::net::HttpClient` (http_client)](#std__net__HttpClient)
* [`std::net::WGet` (wget)](#std__net__WGet)
* [`std::net::ftp::Get` (ftp_get)](#std__net__ftp__Get)
* [`std::net::ftp::GetInMemory` (ftp_get_in_memory)](#std__net__ftp__GetInMemory)
* [`std::net::ftp::List` (ftp_list)](#std__net__ftp__List)
* [`std::net::ftp::NLst` (ftp_nlst)](#std__net__ftp__NLst)
* [`std::net::ftp::Put` (ftp_put)](#std__net__ftp__Put)
* [`std::net::ftp::PutInMemory` (ftp_put_in_memory)](#std__net__ftp__PutInMemory)
* [`std::process::Execute` (exec)](#std__process__Execute)
* [`std::process::Exit` (exit, quit, q)](#std__process__Exit)
* [`std::process::ProcessID` (pid, process_id)](#std__process__ProcessID)
* [`std::process::Spawn` (spawn)](#std__process__Spawn)
* [`std::process::Watchdog` (watchdog)](#std__process__Watchdog)
* [`std::random::Range` (random_range, rand_range)](#std__random__Range)
* [`std::random::Text` (random_text, rand_text)](#std__random__Text)
* [`std::scope::Clear` (clear_scope)](#std__scope__Clear)
* [`std::scope::PopStack` (scope_pop_stack)](#std__scope__PopStack)
* [`std::scope::PushStack` (scope_push_stack)](#std__scope__PushStack)
* [`std::semver::IsEqual` (semver_is_equal)](#std__semver__IsEqual)
* [`std::semver::IsNewer` (semver_is_newer)](#std__semver__IsNewer)
* [`std::semver::Parse` (semver_parse)](#std__semver__Parse)
* [`std::string::Base64` (base64)](#std__string__Base64)
* [`std::string::Base64Decode` (base64_decode)](#std__string__Base64Decode)
* [`std::string::Base64Encode` (base64_encode)](#std__string__Base64Encode)
* [`std::string::BytesToString` (bytes_to_string)](#std__string__BytesToString)
* [`std::string::CamelCase` (camelcase)](#std__string__CamelCase)
* [`std::string::Concat` (concat)](#std__string__Concat)
* [`std::string::Contains` (contains)](#std__string__Contains)
* [`std::string::EndsWith` (ends_with)](#std__string__EndsWith)
* [`std::string::Equals` (equals, eq)](#std__string__Equals)
* [`std::string::IndexOf` (indexof)](#std__string__IndexOf)
* [`std::string::IsEmpty` (is_empty)](#std__string__IsEmpty)
* [`std::string::KebabCase` (kebabcase)](#std__string__KebabCase)
* [`std::string::LastIndexOf` (last_indexof)](#std__string__LastIndexOf)
* [`std::string::Length` (length, strlen)](#std__string__Length)
* [`std::string::Lowercase` (lowercase)](#std__string__Lowercase)
* [`std::string::Replace` (replace)](#std__string__Replace)
* [`std::string::SnakeCase` (snakecase)](#std__string__SnakeCase)
* [`std::string::Split` (split)](#std__string__Split)
* [`std::string::StartsWith` (starts_with)](#std__string__StartsWith)
* [`std::string::StringToBytes` (string_to_bytes)](#std__string__StringToBytes)
* [`std::string::SubString` (substring)](#std__string__SubString)
* [`std::string::Trim` (trim)](#std__string__Trim)
* [`std::string::TrimEnd` (trim_end)](#std__string__TrimEnd)
* [`std::string::TrimStart` (trim_start)](#std__string__TrimStart)
* [`std::string::Uppercase` (uppercase)](#std__string__Uppercase)
* [`std::test::Assert` (assert)](#std__test__Assert)
* [`std::test::AssertEquals` (assert_eq)](#std__test__AssertEquals)
* [`std::test::AssertError` (assert_error)](#std__test__AssertError)
* [`std::test::AssertFail` (assert_fail)](#std__test__AssertFail)
* [`std::test::AssertFalse` (assert_false)](#std__test__AssertFalse)
* [`std::test::TestDirectory` (test_directory)](#std__test__TestDirectory)
* [`std::test::TestFile` (test_file)](#std__test__TestFile)
* [`std::thread::Sleep` (sleep)](#std__thread__Sleep)
* [`std::time::CurrentTimeMillies` (current_time)](#std__time__CurrentTimeMillies)
* [`std::var::GetAllVarNames` (get_all_var_names)](#std__var__GetAllVarNames)
* [`std::var::GetByName` (get_by_name)](#std__var__GetByName)
* [`std::var::IsDefined` (is_defined)](#std__var__IsDefined)
* [`std::var::Set` (set)](#std__var__Set)
* [`std::var::SetByName` (set_by_name)](#std__var__SetByName)
* [`std::var::Unset` (unset)](#std__var__Unset)
* [`std::var::UnsetAllVars` (unset_all_vars)](#std__var__UnsetAllVars)


<a name="fs__zip__Unzip"></a>
## `fs::zip::Unzip`
```
unzip <zipfile> [target]
```

Unpacks the ZIP file into the `target` directory, if provided, or
into current working directory otherwise.

### Parameters

- zipfile - The path to the ZIP archive to be created.
- target - The directory to unpack files into. If not provided,
  current working directory is used.

### Return value

true if successful (i.e. the zip file exists and there are no existing file conflicts)

### Examples

```sh
# ./stuff directory will be created automatically
unzipped = unzip ./archive.zip ./stuff
```


### Aliases:
unzip

<a name="fs__zip__Zip"></a>
## `fs::zip::Zip`
```
zip [--base basedir] [--compression comp] [--append] <zipfile> <files>
```

Packs the provided files into a ZIP archive.

File paths in the archive will be relative to current working directory.

### Parameters

 - zipfile - The path to the ZIP archive to be created.
 - files - One or more file paths to pack. No globbing is performed. However, array
   handles containing the files to pack can be used.
 - Optional base directory via `--base <basedir>` --- this directory will be used
   as a base for the file paths inside the archive.
 - Optional append flag via `--append` --- if set, the files will be added to the
   existing archive. If the archive does not exist, it will be created.
 - Optional compression mode via `--compression comp` where `comp` is one of
   `deflate`, `bzip2`, `none`. If not specified, `deflate` is used by default.

### Return value

true if successful

### Examples

```sh
# create some files for the example
mkdir ./test
touch ./test/foo/bar.txt
touch ./test/baz/qux.png
touch ./test/folder/another/file.doc

# pack the files
zipped = zip ./archive.zip ./test/foo/bar.txt ./test/folder/another/file.doc
```


### Aliases:
zip

<a name="internal__SDKDocsGen"></a>
## `internal::SDKDocsGen`
```sh
doc_file = internal::sdkdocs [prefix] output_file
```

Generates markdown documentation of all known commands and writes them into the provided file.

### Parameters

* Optional name prefix
* The target file name which will hold the generated documentation.

### Return Value

The target file name.

### Examples

```sh
doc_file = internal::sdkdocs ./docs/sdk.md
```


<a name="std__Echo"></a>
## `std::Echo`
```sh
echo [arg]*
```

The echo command will printout all provided arguments.<br>
After all input is done, an end of line will be printed as well.

### Parameters

Any number of arguments may be provided and will be printed.

### Return Value

The amount of arguments printed.

### Examples

```sh
# Print multiple arguments:
echo hello world

# Print multiple spaces between words
echo "hello    world"
```


### Aliases:
echo

<a name="std__Eval"></a>
## `std::Eval`
```sh
eval command arguments
```

The eval command enables to run dynamically created commands.<br>
The command and arguments passed can be variables in the form of ${name}.

### Parameters

Any number of arguments which will construct a line to evaluate and execute.

### Return Value

The result of the evaluated line.

### Examples

```sh
command = set echo
eval ${command} hello world
```


### Aliases:
eval

<a name="std__IsCommandDefined"></a>
## `std::IsCommandDefined`
```sh
var = is_command_defined key
```

Returns true if the provided command name exists.

### Parameters

The command name.

### Return Value

True if the command exists.

### Examples

```sh
exists = is_command_defined exec
```


### Aliases:
is_command_defined

<a name="std__Noop"></a>
## `std::Noop`
```sh
noop
```

Empty function that does nothing and returns none.

### Parameters

All parameters are ignored

### Return Value

None

### Examples

```sh
noop
```


### Aliases:
noop

<a name="std__Not"></a>
## `std::Not`
```sh
output = not [command|value|condition]
```

Enables to switch falsy to true and truthy to false.<br>
The **not** commands accept either:

* A command with optional arguments and invokes it
* A single value which doesn't match any known command
* A condition statement

If the result is one of the following:

* No output
* false (case insensitive)
* 0
* no (case insensitive)
* Empty value

It will return true, otherwise it will return false.

A condition statement is made up of values, or/and keywords and '('/')' groups.<br>
Each must be separated with a space character.

### Parameters

A command and its arguments to invoke and evaluate its output, if a single value is provided an no such command exists, it is evaluated as a value.

### Return Value

The switched value of the input.

### Examples

```sh
fn test_not_true
    value = not true

    assert_false ${value}
end

fn test_not_false
    value = not false

    assert ${value}
end

fn test_not_command_true
    value = not set true

    assert_false ${value}
end

fn test_not_command_false
    value = not set false

    assert ${value}
end

fn test_not_condition_true
    value = not true and false or true and false or ( true and true or false )

    assert_false ${value}
end

fn test_not_condition_false
    value = not true and false or true and false or ( true and true or false ) and false

    assert ${value}
end
```


### Aliases:
not

<a name="std__Print"></a>
## `std::Print`
```sh
print [--style|-s bold|underline|italic|dimmed|blink|strikethrough]* [--color|-c black|red|green|yellow|blue|magenta|cyan|white|bright_<color>|rgb_<red>_<green>_<blue>] [--background-color|-bgc black|red|green|yellow|blue|magenta|cyan|white|bright_<color>|rgb_<red>_<green>_<blue>] [arg]*
```

The print command will printout all provided arguments with optional color values.<br>
No end of line will be added.<br>
The style will continue to additional printouts until an echo/println is used to close the line.<br>
**Not all colors and all styles are supported on every terminal.**

### Parameters

* Optional styles - To support multiple styles, add the option as much as needed.
* Optional color - The text color. For RGB, use the rgb_ prefix with the values separated by a _ character.
* Optional background color (also supports rgb_ prefix)
* Any number of arguments may be provided and will be printed.

### Return Value

The amount of arguments printed.

### Examples

```sh
# Print multiple arguments:
print hello world

# Print multiple spaces between words
print "hello    world"

# Print with style/color values
print --style underline --color red My Bold Red Text
echo
print -s underline -s bold -c bright_green -bgc red Hello World
echo
```


### Aliases:
print

<a name="std__Println"></a>
## `std::Println`
```sh
println [--style|-s bold|underline|italic|dimmed|blink|strikethrough]* [--color|-c black|red|green|yellow|blue|magenta|cyan|white|bright_<color>|rgb_<red>_<green>_<blue>] [--background-color|-bgc black|red|green|yellow|blue|magenta|cyan|white|bright_<color>|rgb_<red>_<green>_<blue>] [arg]*
```

The println command will printout all provided arguments with optional color values.<br>
**Not all colors and all styles are supported on every terminal.**

### Parameters

* Optional styles - To support multiple styles, add the option as much as needed.
* Optional color - The text color. For RGB, use the rgb_ prefix with the values separated by a _ character.
* Optional background color (also supports rgb_ prefix)
* Any number of arguments may be provided and will be printed.

### Return Value

The amount of arguments printed.

### Examples

```sh
# Print multiple arguments:
println hello world

# Print multiple spaces between words
println "hello    world"

# Print with style/color values
println --style underline --color red My Bold Red Text
println -s underline -s bold -c bright_green -bgc red Hello World
```


### Aliases:
println

<a name="std__ReadUserInput"></a>
## `std::ReadUserInput`
```sh
var = read
```

Reads the user input into the output variable.<br>
If the user didn't insert any input, none will be returned.

### Parameters

None

### Return Value

The user input or none if no input was entered.

### Examples

```sh
echo Enter Full Name:
name = read

if is_empty ${name}
    echo You didn't enter any value
else
    echo Your name is: ${name}
end
```


### Aliases:
read

<a name="std__Release"></a>
## `std::Release`
```sh
release [-r|--recursive] handle
```

Releases an internal handle stored in the runtime memory.<br>
Certain commands (such as **array**) will create a handle and the variable will only hold a reference to that handle.<br>
In order to release those handles once they are no longer needed, the release command should be used.<br>
By providing the recursive flag, it will also go over the data values (array items, map values, set keys, ...) and release each one of them as well
if they are handles to other arrays/maps/sets/...

### Parameters

* Optional recursive (-r/--recursive) flag (default false)
* The handle name.

### Return Value

* true - If a handle was found and removed
* false - If no handle was found

### Examples

```sh
release ${array_handle}
```


### Aliases:
release

<a name="std__ShowCommandDocumentation"></a>
## `std::ShowCommandDocumentation`
```sh
var = man command
```

Prints and returns the help documentation of the provided command.

### Parameters

The command name.

### Return Value

The help documentation or if not found, none.

### Examples

```sh
man set
```


### Aliases:
man

<a name="std__collections"></a>
## `std::collections`
The collections module contains commands which enable to interact with different data models such as arrays, sets and maps.

* Arrays are simple ordered list of items
* Sets are unordered unique collection of items
* Maps are key/value (dictionary) structure where the keys are unique

Access to these data structures are done via handles.<br>
Handles are provided by the data structure creation command (such as: array, range, map, set) and are used in all
other commands to read/modify those data structures.<br>
Once done with a specific data structure, you must release it via release command to prevent any memory leaks.



<a name="std__collections__Array"></a>
## `std::collections::Array`
```sh
handle = array value1 value2 value3 ...
```

Creates an array from the input arguments and returns a handle to that array.<br>
This handle can be passed to other commands which support arrays using handles.<br>
Once the array is no longer used, it should be released using the **release** command.

### Parameters

Any number of arguments which will construct the array.

### Return Value

A handle to the array.

### Examples

```sh
handle = array ${var} "hello world" 5 ${another_var}

# once done we should release the handle
release ${handle}
```


### Aliases:
array

<a name="std__collections__ArrayClear"></a>
## `std::collections::ArrayClear`
```sh
result = array_clear handle
```

Clears the provided array.

### Parameters

The array handle.

### Return Value

True if successful.

### Examples

```sh
handle = array

result = array_push ${handle} 1

result = array_is_empty ${handle}
assert_false ${result}

result array_clear ${handle}
assert ${result}

result = array_is_empty ${handle}
assert ${result}

release ${handle}
```


### Aliases:
array_clear

<a name="std__collections__ArrayConcat"></a>
## `std::collections::ArrayConcat`

```sh
handle = array_concat [handle]*
```

Concats all provided arrays and returns a handle to a new array with all items.

### Parameters

Any number of array handles.

### Return Value

A handle to the new array.

### Examples

```sh
input1 = range 1 4
input2 = range 4 6
input3 = range 6 8

# new array will contain values from 1-7
arr = array_concat ${input1} ${input2} ${input3}
```


#### Source:
<details>
  <summary>Show Source</summary>

```sh

for scope::array_concat::arg in ${scope::array_concat::arguments}
    if not is_array ${scope::array_concat::arg}
        trigger_error "Invalid input, non array handle or array not found."
    end
end

scope::array_concat::array = array

for scope::array_concat::arg in ${scope::array_concat::arguments}
    for scope::array_concat::item in ${scope::array_concat::arg}
        array_push ${scope::array_concat::array} ${scope::array_concat::item}
    end
end

set ${scope::array_concat::array}

```
</details>



### Aliases:
array_concat

<a name="std__collections__ArrayContains"></a>
## `std::collections::ArrayContains`

```sh
var = array_contains handle value
```

Returns the first index of the array with the same value as provided.<br>
If not found, false will be returned.

### Parameters

* The array handle.
* The value

### Return Value

The value index in the array or false if not found.

### Examples

```sh
handle = array value1 value2 value3
index = array_contains ${handle} value2
```


#### Source:
<details>
  <summary>Show Source</summary>

```sh

scope::array_contains::index = set false
scope::array_contains::value = set ${scope::array_contains::argument::2}

scope::array_contains::counter = set 0
for scope::array_contains::next_value in ${scope::array_contains::argument::1}
    scope::array_contains::found = equals ${scope::array_contains::next_value} ${scope::array_contains::value}

    if ${scope::array_contains::found}
        scope::array_contains::index = set ${scope::array_contains::counter}
        scope::array_contains::argument::1 = set
    end

    scope::array_contains::counter = calc ${scope::array_contains::counter} + 1
end

set ${scope::array_contains::index}

```
</details>



### Aliases:
array_contains

<a name="std__collections__ArrayGet"></a>
## `std::collections::ArrayGet`
```sh
var = array_get handle index
```

Returns the element from the array at a given index or none if the index is bigger than the array length.

### Parameters

* The array handle.
* The element index.

### Return Value

The element at the given index from the array or none.

### Examples

```sh
handle = array 1 2 3
element = array_get ${handle} 2
assert_eq ${element} 3
```


### Aliases:
array_get

<a name="std__collections__ArrayIsEmpty"></a>
## `std::collections::ArrayIsEmpty`

```sh
var = array_is_empty handle
```

Returns true if the provided array handle is an empty array.

### Parameters

The array handle.

### Return Value

True if the provided handle belongs to an empty array.

### Examples

```sh
values = array
out = array_is_empty ${values}
```


#### Source:
<details>
  <summary>Show Source</summary>

```sh

scope::array_is_empty::length = array_length ${scope::array_is_empty::argument::1}
equals 0 ${scope::array_is_empty::length}

```
</details>



### Aliases:
array_is_empty

<a name="std__collections__ArrayJoin"></a>
## `std::collections::ArrayJoin`

```sh
var = array_join handle separator
```

Joins all values in the provided array with the provided separator in between each value.

### Parameters

* An array handle
* The separator to put between each item pair

### Return Value

The joined string value

### Examples

```sh
function test_to_string
    arr = array hello world
    string = array_join ${arr} ", "

    release ${arr}

    assert_eq ${string} "hello, world"
end

function test_numbers
    arr = range 1 5
    string = array_join ${arr} ", "

    release ${arr}

    assert_eq ${string} "1, 2, 3, 4"
end

function test_empty_separator
    arr = range 1 5
    string = array_join ${arr} ""

    release ${arr}

    assert_eq ${string} "1234"
end
```


#### Source:
<details>
  <summary>Show Source</summary>

```sh

if not is_array ${scope::array_join::argument::1}
    trigger_error "Invalid input, non array handle or array not found."
end

if not array_is_empty ${scope::array_join::argument::1}
    for scope::array_join::item in ${scope::array_join::argument::1}
        scope::array_join::string = set "${scope::array_join::string}${scope::array_join::item}${scope::array_join::argument::2}"
    end

    if not is_empty ${scope::array_join::argument::2}
        scope::array_join::separatorlen = strlen ${scope::array_join::argument::2}
        scope::array_join::stringlen = strlen ${scope::array_join::string}
        scope::array_join::offset = calc ${scope::array_join::stringlen} - ${scope::array_join::separatorlen}
        scope::array_join::string = substring ${scope::array_join::string} 0 ${scope::array_join::offset}
    end
end

set ${scope::array_join::string}

```
</details>



### Aliases:
array_join

<a name="std__collections__ArrayLength"></a>
## `std::collections::ArrayLength`
```sh
var = array_length handle
```

Returns the array length based on the provided array handle.

### Parameters

The array handle.

### Return Value

The array length.

### Examples

```sh
handle = array a b c "d e"
len = array_length ${handle}
released = release ${handle}
echo Array length: ${len} released: ${released}

handle = range 0 10
len = array_length ${handle}
released = release ${handle}
echo Array length: ${len} released: ${released}
```


### Aliases:
array_length, arrlen, array_size

<a name="std__collections__ArrayPop"></a>
## `std::collections::ArrayPop`
```sh
var = array_pop handle
```

Returns the last element of the array or none if the array is empty.

### Parameters

The array handle.

### Return Value

The last element of the array or none if the array is empty.

### Examples

```sh
handle = array 1 2 3
last_element = array_pop ${handle}
assert_eq ${last_element} 3
```


### Aliases:
array_pop

<a name="std__collections__ArrayPush"></a>
## `std::collections::ArrayPush`
```sh
var = array_push handle value
```

Pushes an additional value to an existing array.

### Parameters

The array handle.

### Return Value

True if a new value was pushed.

### Examples

```sh
handle = array 1 2 3
array_push ${handle} 4
last_element = array_pop ${handle}
assert_eq ${last_element} 4
```


### Aliases:
array_push, array_add, array_put

<a name="std__collections__ArrayRemove"></a>
## `std::collections::ArrayRemove`
```sh
result = array_remove handle index
```

Removes the item from the array at the given index.<br>
If the array is not found or the index is greater than the array size, this command will return false.<br>
Otherwise it will return true.

### Parameters

* The array handle.
* The element index.

### Return Value

True if successful.

### Examples

```sh
arr = array old

element = array_get ${arr} 0
assert_eq ${element} old

result = array_remove ${arr} 0
assert ${result}

empty = array_is_empty ${arr}
assert ${empty}
```


### Aliases:
array_remove

<a name="std__collections__ArraySet"></a>
## `std::collections::ArraySet`
```sh
result = array_set handle index value
```

Updates the array at a given index with the provided value.<br>
If the array is not found or the index is greater than the array size, this command will return false.<br>
Otherwise it will return true.

### Parameters

* The array handle.
* The element index.
* The element value.

### Return Value

True if successful.

### Examples

```sh
arr = array old

element = array_get ${arr} 0
assert_eq ${element} old

result = array_set ${arr} 0 new
assert ${result}

element = array_get ${arr} 0
assert_eq ${element} new
```


### Aliases:
array_set

<a name="std__collections__IsArray"></a>
## `std::collections::IsArray`
```sh
var = is_array handle
```

Returns true if the provided value is an array handle.

### Parameters

The array handle.

### Return Value

True if the provided value is an array handle.

### Examples

```sh
arr = array 1 2 3

value = is_array ${arr}
assert ${value}

released = release ${arr}
assert ${released}
```


### Aliases:
is_array

<a name="std__collections__IsMap"></a>
## `std::collections::IsMap`
```sh
var = is_map handle
```

Returns true if the provided value is a map handle.

### Parameters

The map handle.

### Return Value

True if the provided value is a map handle.

### Examples

```sh
map_handle = map

value = is_map ${map_handle}
assert ${value}

released = release ${map_handle}
assert ${released}
```


### Aliases:
is_map

<a name="std__collections__IsSet"></a>
## `std::collections::IsSet`
```sh
var = is_set handle
```

Returns true if the provided value is a set handle.

### Parameters

The set handle.

### Return Value

True if the provided value is a set handle.

### Examples

```sh
handle = set_new 1 2 3

value = is_set ${handle}
assert ${value}

released = release ${handle}
assert ${released}
```


### Aliases:
is_set

<a name="std__collections__Map"></a>
## `std::collections::Map`
```sh
handle = map
```

Creates an empty map and returns a handle to that array.<br>
This handle can be passed to other commands which support maps using handles.<br>
Once the map is no longer used, it should be released using the **release** command.

### Parameters

None

### Return Value

A handle to the map.

### Examples

```sh
handle = map

# once done we should release the handle
release ${handle}
```


### Aliases:
map

<a name="std__collections__MapClear"></a>
## `std::collections::MapClear`
```sh
result = map_clear handle
```

Clears the provided map.

### Parameters

The map handle.

### Return Value

True if successful.

### Examples

```sh
handle = map

result = map_put ${handle} a 1

result = map_is_empty ${handle}
assert_false ${result}

result map_clear ${handle}
assert ${result}

result = map_is_empty ${handle}
assert ${result}

release ${handle}
```


### Aliases:
map_clear

<a name="std__collections__MapContainsKey"></a>
## `std::collections::MapContainsKey`

```sh
var = map_contains_key handle key
```

Returns true if the provided key was found in the map.

### Parameters

* The map handle.
* The key

### Return Value

True if the key was found in the map.

### Examples

```sh
handle = map
map_put ${handle} key value
found = map_contains_key ${handle} key
```


#### Source:
<details>
  <summary>Show Source</summary>

```sh

scope::map_contains_key::value = map_get ${scope::map_contains_key::argument::1} ${scope::map_contains_key::argument::2}
is_defined scope::map_contains_key::value

```
</details>



### Aliases:
map_contains_key

<a name="std__collections__MapContainsValue"></a>
## `std::collections::MapContainsValue`

```sh
var = map_contains_value handle value
```

Returns true if the provided value was found in the map.

### Parameters

* The map handle.
* The value

### Return Value

True if the value was found in the map.

### Examples

```sh
handle = map
map_put ${handle} key value
found = map_contains_value ${handle} value
```


#### Source:
<details>
  <summary>Show Source</summary>

```sh

scope::map_contains_value::found = set false
scope::map_contains_value::not_empty = not map_is_empty ${scope::map_contains_value::argument::1}

if ${scope::map_contains_value::not_empty}
    scope::map_contains_value::value = set ${scope::map_contains_value::argument::2}
    scope::map_contains_value::key_array_handle = map_keys ${scope::map_contains_value::argument::1}

    for scope::map_contains_value::item in ${scope::map_contains_value::key_array_handle}
        scope::map_contains_value::next_value = map_get ${scope::map_contains_value::argument::1} ${scope::map_contains_value::item}
        scope::map_contains_value::found = equals ${scope::map_contains_value::next_value} ${scope::map_contains_value::value}

        if ${scope::map_contains_value::found}
            release ${scope::map_contains_value::key_array_handle}
        end
    end
end

release ${scope::map_contains_value::key_array_handle}
set ${scope::map_contains_value::found}

```
</details>



### Aliases:
map_contains_value

<a name="std__collections__MapGet"></a>
## `std::collections::MapGet`
```sh
value = map_get handle key
```

Returns a the value corresponding to the key from the map.

### Parameters

* The map handle.
* The key.

### Return Value

The value corresponding to the key from the map.

### Examples

```sh
handle = map

result = map_put ${handle} key value
assert_eq ${result} true

value = map_get ${handle} key
assert_eq ${value} value

release ${handle}
```


### Aliases:
map_get

<a name="std__collections__MapIsEmpty"></a>
## `std::collections::MapIsEmpty`

```sh
var = map_is_empty handle
```

Returns true if the provided map handle is an empty map.

### Parameters

The map handle.

### Return Value

True if the provided handle belongs to an empty map.

### Examples

```sh
handle = map
map_put ${handle} key value
empty = map_is_empty ${handle}
```


#### Source:
<details>
  <summary>Show Source</summary>

```sh

scope::map_is_empty::length = map_size ${scope::map_is_empty::argument::1}
equals 0 ${scope::map_is_empty::length}

```
</details>



### Aliases:
map_is_empty

<a name="std__collections__MapKeys"></a>
## `std::collections::MapKeys`
```sh
keys = map_keys handle
```

Returns a handle to an array holding all keys in the provided map handle.

### Parameters

* The map handle.

### Return Value

A handle to an array holding all map keys.

### Examples

```sh
handle = map

result = map_put ${handle} key1 value1
assert_eq ${result} true
result = map_put ${handle} key2 value2
assert_eq ${result} true

keys = map_keys ${handle}
for key in ${keys}
    value = map_get ${handle} ${key}
    echo Key: ${key} Value: ${value}
end

release ${handle}
release ${keys}
```


### Aliases:
map_keys

<a name="std__collections__MapLoadProperties"></a>
## `std::collections::MapLoadProperties`
```sh
var = map_load_properties [--prefix prefix] handle text
```

Parsers and loads all properties to the provided map.

### Parameters

* Optional --prefix and the prefix value
* The map handle.
* The properties text.

### Return Value

True if successful.

### Examples

```sh
handle = map

result = map_put ${handle} key value
assert_eq ${result} true

value = map_get ${handle} key
assert_eq ${value} value

release ${handle}
```


### Aliases:
map_load_properties

<a name="std__collections__MapPut"></a>
## `std::collections::MapPut`
```sh
var = map_put handle key value
```

Inserts a key-value pair into the map.

### Parameters

* The map handle.
* The key.
* The new value.

### Return Value

True if a new value was inserted.

### Examples

```sh
handle = map

result = map_put ${handle} key value
assert_eq ${result} true

value = map_get ${handle} key
assert_eq ${value} value

release ${handle}
```


### Aliases:
map_put, map_add

<a name="std__collections__MapRemove"></a>
## `std::collections::MapRemove`
```sh
value = map_remove handle key
```

Removes a the value corresponding to the key from the map and returns it.

### Parameters

* The map handle.
* The key.

### Return Value

The value corresponding to the key from the map.

### Examples

```sh
handle = map

result = map_put ${handle} key value
assert_eq ${result} true

value = map_remove ${handle} key
assert_eq ${value} value

release ${handle}
```


### Aliases:
map_remove

<a name="std__collections__MapSize"></a>
## `std::collections::MapSize`
```sh
var = map_size handle
```

Returns the map size based on the provided map handle.

### Parameters

The map handle.

### Return Value

The map size.

### Examples

```sh
handle = map

result = map_put ${handle} a 1
result = map_put ${handle} b 2
result = map_put ${handle} c 3

result = map_size ${handle}
assert_eq ${result} 3

release ${handle}
```


### Aliases:
map_size

<a name="std__collections__MapToProperties"></a>
## `std::collections::MapToProperties`
```sh
text = map_to_properties [--prefix prefix] handle
```

Converts the provided map to properties text.

### Parameters

* Optional --prefix and the prefix value
* The map handle.

### Return Value

The properties text.

### Examples

```sh
handle = map
map_put ${handle} a 1
map_put ${handle} b 2
map_put ${handle} a.b.c 123

text = map_to_properties ${handle}
```


### Aliases:
map_to_properties

<a name="std__collections__Range"></a>
## `std::collections::Range`
```sh
handle = range start end
```

Creates an array from the input start and end range values and returns a handle to that array.<br>
This handle can be passed to other commands which support arrays using handles.<br>
Once the array is no longer used, it should be released using the **release** command.

### Parameters

* The start numeric value
* The end numeric value which cannot be smaller than the start value.

### Return Value

A handle to the array.

### Examples

```sh
handle = range 1 10

# once done we should release the handle
release ${handle}
```


### Aliases:
range

<a name="std__collections__ReadProperties"></a>
## `std::collections::ReadProperties`
```sh
count = read_properties [--prefix key] text
```

Parses the properties (based on java properties format) text and sets them as variables.<br>
This command will also return the count of properties read.<br>
If prefix is provided, all properties read, will be stored as variables with the **prefix.** as their prefix.

### Parameters

* Optional --prefix and the prefix value
* The text to parse.

### Return Value

The properties count.

### Examples

```sh
count = read_properties "a=1\nb=2\na.b.c=3"
assert_eq ${count} 3

assert_eq ${a} 1
assert_eq ${b} 2
assert_eq ${a.b.c} 3

count = read_properties --prefix config a=1\nb=2\na.b.c=3
assert_eq ${count} 3

assert_eq ${config.a} 1
assert_eq ${config.b} 2
assert_eq ${config.a.b.c} 3
```


### Aliases:
read_properties

<a name="std__collections__Set"></a>
## `std::collections::Set`
```sh
handle = set_new value1 value2 value3 ...
```

Creates a new set from the input arguments and returns a handle to that set.<br>
This handle can be passed to other commands which support sets using handles.<br>
Once the set is no longer used, it should be released using the **release** command.

### Parameters

Any number of arguments which will construct the set.

### Return Value

A handle to the set.

### Examples

```sh
handle = set_new ${var} "hello world" 5 ${another_var}

# once done we should release the handle
release ${handle}
```


### Aliases:
set_new

<a name="std__collections__SetClear"></a>
## `std::collections::SetClear`
```sh
result = set_clear handle
```

Clears the provided set.

### Parameters

The set handle.

### Return Value

True if successful.

### Examples

```sh
handle = set

result = set_put ${handle} 1

result = set_is_empty ${handle}
assert_false ${result}

result set_clear ${handle}
assert ${result}

result = set_is_empty ${handle}
assert ${result}

release ${handle}
```


### Aliases:
set_clear

<a name="std__collections__SetContains"></a>
## `std::collections::SetContains`
```sh
var = set_contains handle value
```

Returns true if the set contains the provided value.

### Parameters

* The set handle.
* The value

### Return Value

True if the value was found in the set.

### Examples

```sh
handle = set_new value1 value2 value3
found = set_contains ${handle} value2
```


### Aliases:
set_contains

<a name="std__collections__SetFromArray"></a>
## `std::collections::SetFromArray`

```sh
set_handle = set_from_array array_handle
```

Returns a set handle created from the provided array values.

### Parameters

The array handle.

### Return Value

The new set handle.

### Examples

```sh
array_handle = array value1 value2 value3
set_handle = set_from_array ${handle}
```


#### Source:
<details>
  <summary>Show Source</summary>

```sh

if not is_array ${scope::set_from_array::argument::1}
    trigger_error "Invalid input, non array handle or array not found."
end

scope::set_from_array::set = set_new
for scope::set_from_array::next_value in ${scope::set_from_array::argument::1}
    set_put ${scope::set_from_array::set} ${scope::set_from_array::next_value}
end

set ${scope::set_from_array::set}

```
</details>



### Aliases:
set_from_array

<a name="std__collections__SetIsEmpty"></a>
## `std::collections::SetIsEmpty`

```sh
var = set_is_empty handle
```

Returns true if the provided set handle is an empty set.

### Parameters

The set handle.

### Return Value

True if the provided handle belongs to an empty set.

### Examples

```sh
handle = set
set_put ${handle} value
empty = set_is_empty ${handle}
```


#### Source:
<details>
  <summary>Show Source</summary>

```sh

scope::set_is_empty::length = set_size ${scope::set_is_empty::argument::1}
equals 0 ${scope::set_is_empty::length}

```
</details>



### Aliases:
set_is_empty

<a name="std__collections__SetPut"></a>
## `std::collections::SetPut`
```sh
var = set_put handle value
```

Pushes an additional value to an existing set.

### Parameters

The set handle.

### Return Value

True if a new value was pushed.

### Examples

```sh
handle = set_new 1 2 3
set_put ${handle} 4
size = set_size ${handle}
assert_eq ${size} 4
```


### Aliases:
set_put, set_add

<a name="std__collections__SetRemove"></a>
## `std::collections::SetRemove`
```sh
removed = set_remove handle value
```

Removes a the value from the set and returns true/false if it was removed.

### Parameters

* The set handle.
* The value to remove.

### Return Value

True if the value was found and removed from the set.

### Examples

```sh
handle = set_new

result = set_put ${handle} value
assert_eq ${result} true

removed = set_remove ${handle} value
assert ${removed}

release ${handle}
```


### Aliases:
set_remove

<a name="std__collections__SetSize"></a>
## `std::collections::SetSize`
```sh
var = set_size handle
```

Returns the set size based on the provided set handle.

### Parameters

The set handle.

### Return Value

The set size.

### Examples

```sh
handle = set

result = set_put ${handle} 1
result = set_put ${handle} 2
result = set_put ${handle} 3

result = set_size ${handle}
assert_eq ${result} 3

release ${handle}
```


### Aliases:
set_size

<a name="std__collections__SetToArray"></a>
## `std::collections::SetToArray`
```sh
array_handle = set_to_array set_handle
```

Converts the provided set to an array and returns the new array handle.

### Parameters

The set handle.

### Return Value

The array handle or false in case of error.

### Examples

```sh
set_handle = set_new value1 value2 value3
array_handle = set_to_array ${set_handle}
```


### Aliases:
set_to_array

<a name="std__collections__WriteProperties"></a>
## `std::collections::WriteProperties`
```sh
text = write_properties [--prefix prefix] [names]
```

Creates a properties string from the provided list of variable names (not values).

### Parameters

* Optional prefix which will be added to all written properties.
* A list of variable names.

### Return Value

The properties text value.

### Examples

```sh
a = set 1
b = set 2
a.b.c = set 3

# text will be equal to:
# a=1
# b=2
# a.b.c=3
text = write_properties a b a.b.c

# text will be equal to:
# P.a=1
# P.b=2
# P.a.b.c=3
text = write_properties --prefix P a b a.b.c
```


### Aliases:
write_properties

<a name="std__debug__DuckscriptSDKVersion"></a>
## `std::debug::DuckscriptSDKVersion`
```sh
var = duckscript_sdk_version
```

Returns the duckscript SDK version.

### Parameters

None

### Return Value

The duckscript SDK version.

### Examples

```sh
version = duckscript_sdk_version 
```


### Aliases:
duckscript_sdk_version

<a name="std__debug__DuckscriptVersion"></a>
## `std::debug::DuckscriptVersion`
```sh
var = duckscript_version
```

Returns the duckscript runtime version.

### Parameters

None

### Return Value

The duckscript runtime version.

### Examples

```sh
version = duckscript_version 
```


### Aliases:
duckscript_version

<a name="std__debug__DumpInstructions"></a>
## `std::debug::DumpInstructions`
```sh
value = dump_instructions
```

Returns all script instructions structure (not script text) in textual form.

### Parameters

None

### Return Value

The script instructions.

### Examples

```sh
value = dump_instructions
found = contains ${value} dump_instructions
assert found
```


### Aliases:
dump_instructions

<a name="std__debug__DumpState"></a>
## `std::debug::DumpState`
```sh
value = dump_state
```

Returns all script state in textual form.

### Parameters

None

### Return Value

The script state.

### Examples

```sh
numbers = range -5 15

text = dump_instructions
found = contains ${text} -5
assert found
```


### Aliases:
dump_state

<a name="std__debug__DumpVariables"></a>
## `std::debug::DumpVariables`
```sh
value = dump_variables
```

Returns all script variables in textual form.

### Parameters

None

### Return Value

The script variables.

### Examples

```sh
one = set 1
two = set 2
values = array 1 2 yes true
numbers = range -5 15

text = dump_variables
found = contains ${text} two
assert found
found = contains ${text} 2
assert found
found = contains ${text} handle
assert found
```


### Aliases:
dump_variables

<a name="std__env__EnvToMap"></a>
## `std::env::EnvToMap`
```sh
handle = env_to_map
```

Converts all environment variables to a map and returns the map handle.

### Parameters

None

### Return Value

The map handle.

### Examples

```sh
set_env env_to_map_test test_value

handle = env_to_map

value = map_get ${handle} env_to_map_test
assert_eq ${value} test_value

release ${handle}
```


### Aliases:
env_to_map

<a name="std__env__FindExecutable"></a>
## `std::env::FindExecutable`
```sh
var = which executable
```

Returns the path to the executable if it exists.<br>
If not found it will return an empty string.

### Parameters

The executable to find.

### Return Value

The executable path or empty string if not found.

### Examples

```sh
path = which echo
```


### Aliases:
which

<a name="std__env__GetCpuCount"></a>
## `std::env::GetCpuCount`
```sh
var = cpu_count
```

Returns the number of CPUs.

### Parameters

None

### Return Value

The CPU count.

### Examples

```sh
count = cpu_count
```


### Aliases:
cpu_count, get_cpu_count

<a name="std__env__GetHomeDirectory"></a>
## `std::env::GetHomeDirectory`
```sh
var = get_home_dir
```

Returns the user home directory path.<br>
In case of any error, false will be returned.

### Parameters

None

### Return Value

The user home directory path or false in case of any error.

### Examples

```sh
directory = get_home_dir
```


### Aliases:
get_home_dir

<a name="std__env__GetOSFamily"></a>
## `std::env::GetOSFamily`
```sh
var = os_family
```

Returns the OS family (windows, linux, mac).

### Parameters

None

### Return Value

The OS family (windows, linux, mac).

### Examples

```sh
name = os_family
```


### Aliases:
os_family

<a name="std__env__GetOSName"></a>
## `std::env::GetOSName`
```sh
var = os_name
```

Returns the OS name.

### Parameters

None

### Return Value

The OS name.

### Examples

```sh
name = os_name
```


### Aliases:
os_name

<a name="std__env__GetOSRelease"></a>
## `std::env::GetOSRelease`
```sh
var = os_release
```

Returns the OS release.<br>
**This command is not supported on windows.**

### Parameters

None

### Return Value

The OS release.

### Examples

```sh
release = os_release
```


### Aliases:
os_release

<a name="std__env__GetOSVersion"></a>
## `std::env::GetOSVersion`
```sh
var = os_version
```

Returns the OS version.<br>
**This command is not supported on windows.**

### Parameters

None

### Return Value

The OS version.

### Examples

```sh
version = os_version
```


### Aliases:
os_version

<a name="std__env__GetUserName"></a>
## `std::env::GetUserName`
```sh
var = whoami
```

Returns the current user name.

### Parameters

None

### Return Value

The current user name.

### Examples

```sh
name = whoami
```


### Aliases:
whoami, get_user_name

<a name="std__env__GetVar"></a>
## `std::env::GetVar`
```sh
var = get_env key
```

Returns the environment variable value for the provided key.

### Parameters

First argument is the environment variable key.

### Return Value

The environment variable value.

### Examples

```sh
home = get_env HOME
```


### Aliases:
get_env

<a name="std__env__IsWindows"></a>
## `std::env::IsWindows`

```sh
var = is_windows
```

Returns true if the current OS family is windows.

### Parameters

None

### Return Value

True if the current OS family is windows.

### Examples

```sh
windows = is_windows
```


#### Source:
<details>
  <summary>Show Source</summary>

```sh

scope::is_windows::os = os_family
equals ${scope::is_windows::os} windows

```
</details>



### Aliases:
is_windows

<a name="std__env__PrintCurrentDirectory"></a>
## `std::env::PrintCurrentDirectory`
```sh
var = pwd
```

Prints and also returns the current directory.

### Parameters

None

### Return Value

The current directory path.

### Examples

```sh
# Print the current directory:
pwd

# Print and also store the current directory:
directory = pwd
```


### Aliases:
pwd, print_current_directory

<a name="std__env__PrintEnv"></a>
## `std::env::PrintEnv`

```sh
var = printenv
```

Prints and returns all environment variables.

### Parameters

None

### Return Value

All environment variables printout text.

### Examples

```sh
set_env TEST_PRINT_ENV TRUE

text = printenv

valid = contains ${text} TEST_PRINT_ENV=TRUE
assert ${valid}
```


#### Source:
<details>
  <summary>Show Source</summary>

```sh

scope::print_env::map = env_to_map
scope::print_env::text = map_to_properties ${scope::print_env::map}
release ${scope::print_env::map}

echo ${scope::print_env::text}
set ${scope::print_env::text}

```
</details>



### Aliases:
print_env, printenv

<a name="std__env__SetCurrentDirectory"></a>
## `std::env::SetCurrentDirectory`
```sh
cd path
```

Sets the current directory based on the input path.<br>
If no path is provided, it will default to the user home directory.<br>
If the path does not exist, it will return none.

### Parameters

The new current directory.

### Return Value

The new current directory or none in case of any error such as target directory not found.

### Examples

```sh
# Move to user home directory and store the path in the home variable
home = cd

# Move to the requested directory
cd ./scripts
```


### Aliases:
cd, set_current_dir, set_current_directory

<a name="std__env__SetVar"></a>
## `std::env::SetVar`
```sh
var = set_env (key value | --handle map_handle)
```

Sets the environment variable defined by the provided key to the provided value.<br>
If --handle is provided, the second arg will be used as a handle to a map and all keys/values in the map will be set.

### Parameters

The function can be invoked in the following ways:
* Key/Value pair - Two arguments are required:
  * key - The name of the environment variable to set
  * value - The new environment variable value
* Map handle - Two arguments are required:
  * --handle
  * The map handle

### Return Value

true if successful

### Examples

```sh
set_env HOME /usr/me

handle = map
map_put ${handle} mapkey1 mapvalue1
map_put ${handle} mapkey2 mapvalue2
set_env --handle ${handle}

# load env file
text = readfile ./test.env
handle = map
map_load_properties ${handle} ${text}
set_env --handle ${handle}
```


### Aliases:
set_env

<a name="std__env__UName"></a>
## `std::env::UName`

```sh
var = uname [-a]
```

Acts similar to uname on unix like systems.

### Parameters

* Optional -a for extended information (not supported on windows).

### Return Value

The OS name and optionally extra information.

### Examples

```sh
value = uname -a
```


#### Source:
<details>
  <summary>Show Source</summary>

```sh

scope::uname::extended_info = equals -a ${scope::uname::argument::1}
scope::uname::info = os_name

scope::uname::not_windows = not is_windows

if ${scope::uname::extended_info} and ${scope::uname::not_windows}
    scope::uname::release = os_release
    scope::uname::version = os_version
    scope::uname::info = set "${scope::uname::info} ${scope::uname::release} ${scope::uname::version}"
end

set ${scope::uname::info}

```
</details>



### Aliases:
uname

<a name="std__env__UnsetVar"></a>
## `std::env::UnsetVar`
```sh
unset_env key
```

Removes the environment variable defined by the provided key.

### Parameters

The name of the environment variable to remove

### Return Value

None

### Examples

```sh
unset_env HOME
```


### Aliases:
unset_env

<a name="std__error__GetLastError"></a>
## `std::error::GetLastError`
```sh
var = get_last_error
```

In case of any runtime error, this function will return the error message.

### Parameters

None

### Return Value

The last error message or none

### Examples

```sh
# This will trigger an error
assert_fail

error = get_last_error
echo Error Message: ${error}
```


### Aliases:
get_last_error

<a name="std__error__GetLastErrorLine"></a>
## `std::error::GetLastErrorLine`
```sh
var = get_last_error_line
```

In case of any runtime error, this function will return the error line (if available).

### Parameters

None

### Return Value

The last error line or none

### Examples

```sh
# This will trigger an error
assert_fail

line = get_last_error_line
echo Error Line: ${line}
```


### Aliases:
get_last_error_line

<a name="std__error__GetLastErrorSource"></a>
## `std::error::GetLastErrorSource`
```sh
var = get_last_error_source
```

In case of any runtime error, this function will return the error source (such as file name) if available.

### Parameters

None

### Return Value

The last error source or none

### Examples

```sh
# This will trigger an error
assert_fail

source = get_last_error_source
echo Error Source File: ${source}
```


### Aliases:
get_last_error_source

<a name="std__error__SetError"></a>
## `std::error::SetError`
```sh
set_error message
```

Sets the last error which is accessible via get_last_error.<br>
This command will not trigger the on_error command flow.

### Parameters

The error message.

### Return Value

None

### Examples

```sh
set_error "my error message"

error = get_last_error

assert_eq ${error} "my error message"
```


### Aliases:
set_error

<a name="std__error__SetExitOnError"></a>
## `std::error::SetExitOnError`
```sh
var = exit_on_error value
```

Enables to cause the script execution to stop in case of any error.<br>
By default all errors simply trigger the on_error command which the default SDK stores and provides access to.<br>
However, with this command you can change the on_error command to instead stop the script execution.

### Parameters

If no argument is provided, it will return the current state.<br>
If an argument is provided, it will modify the state and return it as true/false.

### Return Value

The current/updated state as true/false value

### Examples

```sh
# Get current state
will_exit = exit_on_error
echo Current state: ${will_exit}

# Update the current state
will_exit = exit_on_error true
echo Current state: ${will_exit}
```


### Aliases:
exit_on_error, set_exit_on_error

<a name="std__error__TriggerError"></a>
## `std::error::TriggerError`
```sh
trigger_error [message]
```

Triggers an error that will trigger the on_error flow.

### Parameters

Optional error message.

### Return Value

None

### Examples

```sh
trigger_error "my error message"
error = get_last_error
assert_eq ${error} "my error message"
```


### Aliases:
trigger_error

<a name="std__flowcontrol__ForIn"></a>
## `std::flowcontrol::ForIn`
```sh
args = array a b c
for arg in ${args}
    # commands
end
release args
```

The for/in command enables to iterate over an array (see [array command](#std__collections__Array)).<br>
The first argument will contain the current iteration value from the array.<br>
Once all values have been read, it will exit the loop.

### Parameters

* for
  * The variable name which will hold the current iteration value
  * The string "in"
  * The handle to the array of values to iterate
* end - no parameters

### Return Value

None

### Examples

```sh
# Simple example iteration over the list of letters:
args = array a b c

for arg in ${args}
    echo current arg is: ${arg}
end

release args

# Example nested loops:
args = array 1 2 3
for i in ${args}
    for j in ${args}
        echo i: ${i} j: ${j}
    end
end
```


### Aliases:
for

<a name="std__flowcontrol__Function"></a>
## `std::flowcontrol::Function`
```sh
fn my_function
    # function content
    return output
end

fn <scope> another_function
    # function content
end
```

This command provides the function language feature as a set of commands:

* function/fn - Defines a function start block
* end - Defines the end of the function block
* return - Allows to exit a function at any point and return an output
* *&lt;scope&gt;* - Optional annotation which enables to use a new scope during the function invocation.
* *function name* - Dynamically created commands based on the function name which are used to invoke the function code.

When a function command is detected, it will search for the end command that comes after.<br>
That entire block is considered the function code block (functions cannot be nested in outer functions)<br>

In order to invoke the function, simply call the function name with any amount of parameters.<br>
Those parameters will be set as ${1}, ${2}, ... and so on.<br>
Since variables are global, it will overwrite any older values stored in those variables.<br>

To exit a function and return a value, simply use the **return** command with the value you want to return.<br>
The variable that was used when the function was originally called, will now store that value.<br>
The return command can be used to exit early without any value.<br>
In case the code reached the **end** call, the function will exit but will not return a value.<br>

The *&lt;scope&gt;* annotation enables to start a new scope when running the function.<br>
All variables defined will not be available except the variables provided to the function as arguments.<br>
All variables created during the function invocation will be deleted once the function ends, except the return value.<br>
This enables a clean function invocation without impacting the global variables.

### Parameters

* function - The function name used later on to invoke the function
* end - no parameters
* return - optional single parameter to return as an output of the function call
* *&lt;scope&gt;* - Optional annotation which enables to use a new scope during the function invocation.
* *function name* - Any number of arguments which will automatically be set as global variables: ${1}, ${2}, ... as so on.

### Return Value

The function invocation returns the output provided by the return command.

### Examples

```sh
# Simple example of a function definition which echo 'hello world' and exits.

# function start
fn hello_world
    echo hello world
end

# function invocation
hello_world

# Example of calling a function and returning a value
fn get_hello_world
    return "hello world"
end

# function invocation
text = get_hello_world

# this will print "hello world"
echo ${text}

# Example of passing arguments
# Also the function is with scope annotation so it has no access
# to any variable except those provided during the function invocation.
fn <scope> print_input
    # ${1} is set with the value 'hello'
    # ${2} is set with the value 'world'
    echo ${1} ${2}
end

print_input hello world

# Functions can call other functions
fn get_one
    return 1
end

fn get_number
    number = get_one
    return ${number}
end

output = get_number

# this will print 1
echo ${output}
```


### Aliases:
function, fn

<a name="std__flowcontrol__GoTo"></a>
## `std::flowcontrol::GoTo`
```sh
goto :label
```

The goto command enables you to jump to any position in the script, if that position has a label value.

### Parameters

A single valid label value.

### Return Value

None

### Examples

```sh
goto :good

echo bad

:good echo good
```


### Aliases:
goto

<a name="std__flowcontrol__If"></a>
## `std::flowcontrol::If`
```sh
if [command|value|condition]
    # commands
elseif [command|value|condition]
    # commands
else
    # commands
end
```

This command provides the if/elseif/else condition language feature as a set of commands:

* if - Defines an if condition
* elseif - Defines optional secondary condition blocks
* else - Optinoal fallback block
* end - Defines the end of the entire if/else block

if and elseif commands accept either:

* A command with optional arguments and invokes it
* A single value which doesn't match any known command
* A condition statement

If the result is one of the following:

* No output
* false (case insensitive)
* 0
* no (case insensitive)
* Empty value

It is considered falsy.<br>
In case of falsy value, it will skip to the next elseif/else block.<br>
If a truthy (non falsy) output is found, it will invoke the commands of that code block and ignore all other elseif/else blocks.<br>

if blocks can be nested in other if blocks (see examples).

A condition statement is made up of values, or/and keywords and '('/')' groups.<br>
Each must be separated with a space character.

### Parameters

* if/elseif - A command and its arguments to invoke and evaluate its output, if a single value is provided an no such command exists, it is evaluated as a value.
* else/end - no parameters

### Return Value

None

### Examples

```sh
# Simple example of an if statement that evaluates the argument value as true and echos "in if"
if true
    echo in if
end

# Example of using **not** command to reverse the output value
if not false
    echo in if
end

# Example of an if statement that evaluates the command as true and echos "in if"
if set true
    echo in if
end

# Example of if condition returning a falsy result and navigation goes to the else block which echos "in else"
if set false
    echo should not be here
else
    echo in else
end

# Example of if condition returning a falsy result and navigation goes to the elseif block has a truthy condition
if set false
    echo should not be here
elseif set true
    echo in else if
else
    echo should not be here
end

# Nested if example:
if set false
    echo should not be here
elseif set true
    echo in else if but not done yet

    if set true
        echo nested if
    end
else
    echo should not be here
end

valid = set false
if true and false or true and false or ( true and true or false )
    valid = set true
end
assert ${valid}

if true and false or true and false or ( true and true or false ) and false
    assert_fail
end
```


### Aliases:
if

<a name="std__flowcontrol__While"></a>
## `std::flowcontrol::While`
```sh
while [command|value|condition]
    # commands
end
```

This command provides the while loop language feature as a set of commands:

* while - Defines a while condition and start of loop
* end - Defines the end of the while block

The while command accept either:

* A command with optional arguments and invokes it
* A single value which doesn't match any known command
* A condition statement

If the result is one of the following:

* No output
* false (case insensitive)
* 0
* no (case insensitive)
* Empty value

It is considered falsy.<br>
In case of falsy value, it will skip to the next line after the while block.<br>
If a truthy (non falsy) output is found, it will invoke the commands of that code block and go back to the start of the while condition.<br>

while blocks can be nested in other while blocks (see examples).

A condition statement is made up of values, or/and keywords and '('/')' groups.<br>
Each must be separated with a space character.

### Parameters

* while - A command and its arguments to invoke and evaluate its output, if a single value is provided an no such command exists, it is evaluated as a value.
* end - no parameters

### Return Value

None

### Examples

```sh
top_count = set 0
inner_count = set 0
counter = set 0
while not equals ${top_count} 10
    top_count = calc ${top_count} + 1
    inner_count = set 0

    while not equals ${inner_count} 10
        inner_count = calc ${inner_count} + 1
        counter = calc ${counter} + 1
    end
end

assert_eq ${counter} 100
```


### Aliases:
while

<a name="std__fs__Append"></a>
## `std::fs::Append`
```sh
result = appendfile file text
```

This command enables to write the provided text into the requested file.<br>
It will return true/false value based if it was able to write the text to the file.<br>
In case the file doesn't exist, it will create it.<br>
If the file exists, it will append the text to it.

### Parameters

* The target file
* The text content to write

### Return Value

true/false based if it was able to write the text to the file.

### Examples

```sh
out = appendfile ./target/tests/writefile.txt "line 1\nline 2"
```


### Aliases:
appendfile

<a name="std__fs__CPGlob"></a>
## `std::fs::CPGlob`

```sh
result = glob_cp source_glob target
```

This command will copy all files that match the given glob.

### Parameters

* The source glob, for example ./*.txt
* The target path

### Return Value

The amount of paths (files) copied or false in case of any error.

### Examples

```sh
count = glob_cp ./**/*.txt ../target
```


#### Source:
<details>
  <summary>Show Source</summary>

```sh

scope::glob_cp::contains_glob = contains ${scope::glob_cp::argument::1} *
scope::glob_cp::target = set ${scope::glob_cp::argument::2}
scope::glob_cp::output = set 0

if ${scope::glob_cp::contains_glob}
    scope::glob_cp::handle = glob_array ${scope::glob_cp::argument::1}
    scope::glob_cp::glob_empty = array_is_empty ${scope::glob_cp::handle}

    if not ${scope::glob_cp::glob_empty}
        scope::glob_cp::is_relative = starts_with ${scope::glob_cp::argument::1} .
        if not ${scope::glob_cp::is_relative}
            scope::glob_cp::top_dir_without_glob = set ${scope::glob_cp::argument::1}
            while contains ${scope::glob_cp::top_dir_without_glob} *
                scope::glob_cp::top_dir_without_glob = dirname ${scope::glob_cp::top_dir_without_glob}
            end

            scope::glob_cp::absolute_prefix_length = strlen ${scope::glob_cp::top_dir_without_glob}
        end

        for scope::glob_cp::entry in ${scope::glob_cp::handle}
            scope::glob_cp::is_file = is_file ${scope::glob_cp::entry}

            if ${scope::glob_cp::is_file}
                if ${scope::glob_cp::is_relative}
                    scope::glob_cp::target_file = join_path ${scope::glob_cp::target} ${scope::glob_cp::entry}
                else
                    scope::glob_cp::target_file = substring ${scope::glob_cp::entry} ${scope::glob_cp::absolute_prefix_length}
                    scope::glob_cp::target_file = join_path ${scope::glob_cp::target} ${scope::glob_cp::target_file}
                end

                scope::glob_cp::done = cp ${scope::glob_cp::entry} ${scope::glob_cp::target_file}

                if ${scope::glob_cp::done}
                    scope::glob_cp::output = calc ${scope::glob_cp::output} + 1
                end
            end
        end
    end

    release ${scope::glob_cp::handle}
else
    scope::glob_cp::is_file = is_file ${scope::glob_cp::argument::1}

    if ${scope::glob_cp::is_file}
        scope::glob_cp::filename = basename ${scope::glob_cp::argument::1}
        scope::glob_cp::done = cp ${scope::glob_cp::argument::1} ${scope::glob_cp::target}/${scope::glob_cp::filename}
        if ${scope::glob_cp::done}
            scope::glob_cp::output = set 1
        end
    end
end

set ${scope::glob_cp::output}

```
</details>



### Aliases:
glob_cp, cp_glob

<a name="std__fs__CopyPath"></a>
## `std::fs::CopyPath`
```sh
var = cp source target
```

This command copies the requested file or directory to the target location.<br>
If the source directory is not empty, its entire contents will be copied as well.

### Parameters

* The source path to copy
* The target path

### Return Value

**true** if the path was copied.

### Examples

```sh
# copy a single file
copied = cp ./file1.txt ./file2.txt

# copy a directory
copied = cp ./source ./target
```


### Aliases:
cp

<a name="std__fs__CreateDirectory"></a>
## `std::fs::CreateDirectory`
```sh
var = mkdir directory
```

This command will create the requested directory (and needed parent directories) and return true/false if it was successful.

### Parameters

The directory name to create.

### Return Value

The operation success value - true if directory exists, else false.

### Examples

```sh
exists = mkdir ./dir/subdir
```


### Aliases:
mkdir

<a name="std__fs__CreateEmptyFile"></a>
## `std::fs::CreateEmptyFile`
```sh
var = touch file
```

This command will create an empty file and return true/false if the file exists.<br>
If file exits, it will not be modified.

### Parameters

The file path.

### Return Value

If the file exists after the command, it will return true.<br>
In case of any error, it will return false.

### Examples

```sh
exists = touch ./dir/file.txt
```


### Aliases:
touch

<a name="std__fs__DeleteEmptyDirectory"></a>
## `std::fs::DeleteEmptyDirectory`
```sh
var = rmdir path
```

This command delete the requested empty directory and returns true if successful.<br>
If the path leads to a file or a directory which is not empty, this command will fail.

### Parameters

A single parameter holding the directory path.

### Return Value

**true** if the directory was deleted.

### Examples

```sh
deleted = rmdir ./mydir
```


### Aliases:
rmdir

<a name="std__fs__DeletePath"></a>
## `std::fs::DeletePath`
```sh
var = rm [-r] [path]+
```

This command delete the requested file/s, empty directories or recursively deletes directories
and all their content (files and sub directories) if the **-r** flag is provided.

### Parameters

* Optional flags (currently only -r is supported which indicates recursive deletion)
* The path/s to delete

### Return Value

**true** if all paths were deleted.

### Examples

```sh
# delete a file or empty directory
deleted = rm ./target

# deletes a directory and all its content
deleted = rm -r ./target

# delete all provided paths
deleted = rm -r ./dir ./somefile ./anotherdir/subdir/file
```


### Aliases:
rm

<a name="std__fs__Exists"></a>
## `std::fs::Exists`
```sh
var = is_path_exists path
```

This command will return true/false based if the provided path points to an existing file system entry.

### Parameters

The path to check.

### Return Value

True if the path points to an existing file system entry.

### Examples

```sh
existing = is_path_exists ./dir
existing = is_path_exists ./dir/somefile.txt
```


### Aliases:
is_path_exists

<a name="std__fs__GetCanonicalPath"></a>
## `std::fs::GetCanonicalPath`
```sh
var = canonicalize path
```

This command will return the c path for the provided input.<br>
In case unable, it will return the original input.

### Parameters

The file/directory path to canonicalize.

### Return Value

The canonicalized path, or if unsuccessful, the original path.

### Examples

```sh
path = canonicalize ./target
```


### Aliases:
canonicalize

<a name="std__fs__GetFileName"></a>
## `std::fs::GetFileName`
```sh
var = basename path
```

This command will return the last path element of the provided path.<br>
If unable, it will return none.

### Parameters

The path to extract the last element from.

### Return Value

The last path element or none if unsuccessful.

### Examples

```sh
file = basename ./dir/file.txt
```


### Aliases:
basename

<a name="std__fs__GetFileSize"></a>
## `std::fs::GetFileSize`
```sh
var = get_file_size path
```

This command will return the size of the file in bytes.

### Parameters

The path to check.

### Return Value

The size of the file in bytes or false in case path is a directory or does not exist.

### Examples

```sh
size = get_file_size ./dir/somefile.txt
```


### Aliases:
get_file_size, filesize

<a name="std__fs__GetLastModifiedTime"></a>
## `std::fs::GetLastModifiedTime`
```sh
var = get_last_modified_time path
```

This command will return the last modified time in millies from unix epoch.

### Parameters

The path to check.

### Return Value

The last modified time in millies from unix epoch or false in case path does not exist.

### Examples

```sh
time = get_last_modified_time ./dir/somefile.txt
```


### Aliases:
get_last_modified_time

<a name="std__fs__GetParentDirectory"></a>
## `std::fs::GetParentDirectory`
```sh
var = dirname path
```

This command will return the parent path of the provided path.<br>
If the parent path is empty, it will return none.

### Parameters

The path to extract the parent path from.

### Return Value

The parent path or none.

### Examples

```sh
directory = dirname ./dir/file.txt
```


### Aliases:
dirname

<a name="std__fs__GitIgnorePathArray"></a>
## `std::fs::GitIgnorePathArray`
```sh
handle = gitignore_path_array path
```

Returns an array handle containing all path entries found from the provided root path that should be included based on the gitignore definitions.

### Parameters

The root path.

### Return Value

The array handle.

### Examples

```sh
handle = gitignore_path_array ./src

for path in ${handle}
    echo ${path}
end
```


### Aliases:
gitignore_path_array

<a name="std__fs__GlobArray"></a>
## `std::fs::GlobArray`
```sh
handle = glob_array pattern
```

Returns an array handle containing all path entries found from the provided glob pattern.<br>
The pattern can be a relative path from current directory or an absolute path.

### Parameters

The glob pattern.

### Return Value

The array handle.

### Examples

```sh
handle = glob_array ./somedir/**/*.txt

for path in ${handle}
    echo ${path}
end
```


### Aliases:
glob_array, globarray

<a name="std__fs__IsDirectory"></a>
## `std::fs::IsDirectory`
```sh
var = is_dir path
```

This command will return true/false based if the provided path points to an existing directory.

### Parameters

The path to check.

### Return Value

True if the path points to an existing directory.

### Examples

```sh
existing_dir = is_dir ./dir
```


### Aliases:
is_directory, is_dir

<a name="std__fs__IsFile"></a>
## `std::fs::IsFile`
```sh
var = is_file path
```

This command will return true/false based if the provided path points to an existing file.

### Parameters

The path to check.

### Return Value

True if the path points to an existing file.

### Examples

```sh
existing_file = is_file ./dir/somefile.txt
```


### Aliases:
is_file

<a name="std__fs__IsPathNewer"></a>
## `std::fs::IsPathNewer`
```sh
var = is_path_newer newer older
```

This command will return true if the 'newer' path last modified time is after the 'older' path last modified time.

### Parameters

* newer - The file/directory path to check.
* older - The file/directory path to check.

### Return Value

True if the 'newer' path last modified time is after the 'older' path last modified time.
Otherwise or in case of an error, false will be returned.

### Examples

```sh
newer = is_path_newer ./new_file.txt ./old_file.txt
```


### Aliases:
is_path_newer

<a name="std__fs__IsReadonly"></a>
## `std::fs::IsReadonly`
```sh
var = is_readonly path
```

This command will return true/false based if the provided path exists and is set to readonly.

### Parameters

The path to check.

### Return Value

True if the provided path exists and is set to readonly.

### Examples

```sh
readonly = is_readonly ./dir/somefile.txt
```


### Aliases:
is_readonly

<a name="std__fs__JoinPath"></a>
## `std::fs::JoinPath`

```sh
result = join_path path [path]*
```

Concats all paths and makes sure there is a / character between each path element.

### Parameters

* A list of paths to join

### Return Value

The joined path

### Examples

```sh
joined = join_path /test /dir1 /dir2 dir3 //dir4// /dir5

assert_eq ${joined} /test/dir1/dir2/dir3/dir4/dir5
```


#### Source:
<details>
  <summary>Show Source</summary>

```sh
scope::join_path::added = set false

for scope::join_path::path in ${scope::join_path::arguments}
    if ${scope::join_path::added}
        scope::join_path::output = set "${scope::join_path::output}/${scope::join_path::path}"
    else
        scope::join_path::output = set ${scope::join_path::path}
        scope::join_path::added = set true
    end
end

while contains ${scope::join_path::output} //
    scope::join_path::output = replace ${scope::join_path::output} // /
end

set ${scope::join_path::output}

```
</details>



### Aliases:
join_path

<a name="std__fs__List"></a>
## `std::fs::List`
```sh
var = ls [flags] [path]
```

Lists the file/directory contents.<br>
If no path is provided, the current working directory will be used.<br>
The supported flags are:

* -l - Shows extended information

### Parameters

* Optional flags (currently only -l is supported)
* Optional path (if not provided, current working directory is used)

### Return Value

**true** is operation was successful.

### Examples

```sh
# prints current directory content
ls

# prints current directory content
ls .

# prints examples directory content
ls ./examples

# prints examples directory content with extended info
ls -l ./examples

# prints current directory content with extended info
ls -l

# prints file name
ls ./examples/ls.ds

# prints file name with extended info
ls -l ./examples/ls.ds
```


### Aliases:
ls

<a name="std__fs__MovePath"></a>
## `std::fs::MovePath`
```sh
var = mv source target
```

This command moves the requested source path to the target path.

* If the source and target paths define a file, it will move the file as defined.
* If target path is a directory path, it will move the source file/directory into that target directory path.

All missing parent directories in the target path will be created as needed.

### Parameters

* The source path to copy
* The target path

### Return Value

**true** if the move was successful.

### Examples

```sh
# move a single file
moved = mv ./file1.txt ./file2.txt

# move a single file into the target directory
moved = mv ./file1.txt ./somedir

# move entire directory into another directory
moved = mv ./source ./target/subdir
```


### Aliases:
mv

<a name="std__fs__Print"></a>
## `std::fs::Print`
```sh
var = cat [file]+
```

The cat command will print out the requested file/s.<br>
In addition it will also return the value to the output variable.

### Parameters

Multiple file paths.

### Return Value

The file content or none if the file does not exist.

### Examples

```sh
cat ./docs/sdk.md
```


### Aliases:
cat

<a name="std__fs__ReadBytes"></a>
## `std::fs::ReadBytes`
```sh
handle = read_binary_file file
```

Reads a raw file and returns a handle to the binary data.

### Parameters

A single parameter holding the file path.

### Return Value

The binary data handle.

### Examples

```sh
handle = read_binary_file ./Cargo.toml
text = bytes_to_string ${handle}
```


### Aliases:
readbinfile, read_binary_file

<a name="std__fs__ReadText"></a>
## `std::fs::ReadText`
```sh
var = readfile file
```

The readfile command will read the requested file and return the value to the output variable.

### Parameters

A single parameter holding the file path.

### Return Value

The file content or none in case file does not exist.

### Examples

```sh
text = readfile ./Cargo.toml
```


### Aliases:
readfile, read_text_file

<a name="std__fs__SetMode"></a>
## `std::fs::SetMode`
```sh
result = chmod mode path
```

This command will update the mode for the given path.<br>
**This command is currently only available for unix like systems and will return false for all others such as windows.**

### Parameters

* The new mode, for example 755
* The path

### Return Value

The new mode as decimal number or false in case of any error.

### Examples

```sh
chmod 777 ./myfile.txt
```


### Aliases:
chmod

<a name="std__fs__SetModeGlob"></a>
## `std::fs::SetModeGlob`

```sh
result = glob_chmod mode glob
```

This command will update the mode for the given glob pattern.<br>
**This command is currently only available for unix like systems and will return false for all others such as windows.**

### Parameters

* The new mode, for example 755
* The path glob

### Return Value

The amount of path entries affected by the operation or false in case of any error.

### Examples

```sh
file1 = set ./target/_duckscript_test/glob_chmod/modify1.txt
touch ${file1}
file2 = set ./target/_duckscript_test/glob_chmod/modify2.txt
touch ${file2}

count = glob_chmod 777 ./target/_duckscript_test/glob_chmod/**/*.txt
assert_eq ${count} 2

readonly = is_readonly ${file1}
assert_false ${readonly}
readonly = is_readonly ${file2}
assert_false ${readonly}

count = glob_chmod 444 ./target/_duckscript_test/glob_chmod/**/*.txt
assert_eq ${count} 2

readonly = is_readonly ${file1}
assert ${readonly}
readonly = is_readonly ${file2}
assert ${readonly}
```


#### Source:
<details>
  <summary>Show Source</summary>

```sh

scope::glob_chmod::handle = glob_array ${scope::glob_chmod::argument::2}
scope::glob_chmod::output = array_length ${scope::glob_chmod::handle}

for scope::glob_chmod::entry in ${scope::glob_chmod::handle}
    scope::glob_chmod::result = chmod ${scope::glob_chmod::argument::1} ${scope::glob_chmod::entry}

    if equals ${scope::glob_chmod::result} false
        release ${scope::glob_chmod::handle}
        scope::glob_chmod::output = set false
    end
end

release ${scope::glob_chmod::handle}

set ${scope::glob_chmod::output}

```
</details>



### Aliases:
glob_chmod, chmod_glob

<a name="std__fs__TempDirectory"></a>
## `std::fs::TempDirectory`
```sh
path = temp_dir
```

This command will return the system temporary directory path.

### Parameters

None

### Return Value

The directory path.

### Examples

```sh
path = temp_dir

echo ${path}
```


### Aliases:
temp_dir

<a name="std__fs__TempFile"></a>
## `std::fs::TempFile`
```sh
path = temp_file [extension]
```

This command will create a new empty temporary file and return its path.

### Parameters

Optional file extension.

### Return Value

The file path.

### Examples

```sh
path = temp_file toml

echo ${path}
```


### Aliases:
temp_file

<a name="std__fs__WriteBytes"></a>
## `std::fs::WriteBytes`
```sh
result = write_binary_file file handle
```

This command enables to write binary data of the provided binary handle into the requested file.<br>
It will return true/false value based if it was able to write the binary data to the file.

### Parameters

* The target file
* The binary data handle

### Return Value

true/false based if it was able to write the binary data to the file.

### Examples

```sh
handle = string_to_bytes "some text"
result = write_binary_file ./target/tests/data.bin ${handle}
```


### Aliases:
writebinfile, write_binary_file

<a name="std__fs__WriteText"></a>
## `std::fs::WriteText`
```sh
result = writefile file text
```

This command enables to write the provided text into the requested file.<br>
It will return true/false value based if it was able to write the text to the file.

### Parameters

* The target file
* The text content to write

### Return Value

true/false based if it was able to write the text to the file.

### Examples

```sh
result = writefile ./target/tests/writefile.txt "line 1\nline 2"
```


### Aliases:
writefile, write_text_file

<a name="std__hash__Digest"></a>
## `std::hash::Digest`
```sh
var = digest --algo (sha256|sha512) (--file path|content)
```

Runs the requested hash on the provided file or string content and returns the hashed value in hex.

### Parameters

* --algo and algorithm to use (currently sha256 and sha512 are supported)
* Optional --file and file path
* Optional the string content to hash (if file is not provided)

### Return Value

The hash value in hex or false in case of error.

### Examples

```sh
hashed = digest --algo sha256 "hello world\n"
assert_eq ${hashed} A948904F2F0F479B8F8197694B30184B0D2ED1C1CD2A1EC0FB85D299A192A447

hashed = digest --algo sha512 --file ./myfile.txt
```


### Aliases:
digest

<a name="std__hash__Sha256Sum"></a>
## `std::hash::Sha256Sum`

```sh
var = sha256sum file
```

Runs SHA-256 hash on the provided file returns the hashed value in hex.

### Parameters

The file to hash

### Return Value

The hash value in hex or false in case of error.
The result will be in lowercase, same as with the core utils with the same name.

### Examples

```sh
hashed = sha256sum ./myfile.txt
```


#### Source:
<details>
  <summary>Show Source</summary>

```sh

scope::sha256sum::output = digest --algo sha256 --file ${scope::sha256sum::argument::1}
scope::sha256sum::output = lowercase ${scope::sha256sum::output}

```
</details>



### Aliases:
sha256sum, sha256sum

<a name="std__hash__Sha512Sum"></a>
## `std::hash::Sha512Sum`

```sh
var = sha512sum file
```

Runs SHA-512 hash on the provided file returns the hashed value in hex.

### Parameters

The file to hash

### Return Value

The hash value in hex or false in case of error.
The result will be in lowercase, same as with the core utils with the same name.

### Examples

```sh
hashed = sha512sum ./myfile.txt
```


#### Source:
<details>
  <summary>Show Source</summary>

```sh

scope::sha512sum::output = digest --algo sha512 --file ${scope::sha512sum::argument::1}
scope::sha512sum::output = lowercase ${scope::sha512sum::output}

```
</details>



### Aliases:
sha512sum, sha512sum

<a name="std__json"></a>
## `std::json`
The json module provides json parsing and encoding capabilities.<br>
Parsing and encoding JSONs can be do to/from simple variables or to collections (maps/arrays).<br>
By default, when parsing a JSON string, the structure will be represented by simple variables.<br>
The root object (or simple value) will be set in the json_parse output variable and any sub structure will be
defined as variables with prefix of the root variable name.<br>
Object nodes, will have the value of: **[OBJECT]**.<br>
Array nodes will have a length variable defined, for example: **arr.length**<br>
If the --collections flag is provided, parsing will return the JSON value or a handle to a collection which will hold the values (or sub collections).<br>
These collections are better way to handling unknown json structures but must be released with the **release --recursive** command.

Because duckscript variables have no type, the json_encode will define every boolean/numeric value as JSON string.<br>

Below is a simple example showing how to parse and encode values of all types when using the default behaviour of storing to variables.

```sh
fn test_simple_types
    str = json_parse \"myvalue\"
    assert_eq ${str} myvalue
    jsonstring = json_encode str
    assert_eq ${jsonstring} \"myvalue\"

    number = json_parse 500
    assert_eq ${number} 500
    jsonstring = json_encode number
    # numeric value is encoded as string
    assert_eq ${jsonstring} \"500\"

    bool = json_parse true
    assert_eq ${bool} true
    jsonstring = json_encode bool
    # boolean value is encoded to string
    assert_eq ${jsonstring} \"true\"

    arr = json_parse "[1, 2, 3]"
    # arr.length is not part of the JSON structure but added as a variable to enable
    # to loop over the array using the range command
    assert_eq ${arr.length} 3
    # direct array location access example
    assert_eq ${arr[0]} 1
    assert_eq ${arr[1]} 2
    assert_eq ${arr[2]} 3
    # array loop example
    arr_range = range 0 ${arr.length}
    for index in ${arr_range}
        expected_value = calc ${index} + 1
        value = get_by_name arr[${index}]
        assert_eq ${value} ${expected_value}
    end

    object = json_parse "{\"str\": \"my string value\", \"number\": 500, \"bool\": true, \"array\": [1, 2, 3]}"
    assert_eq ${object} [OBJECT]
    assert_eq ${object.str} "my string value"
    assert_eq ${object.number} 500
    assert_eq ${object.bool} true
    assert_eq ${object.array.length} 3
    assert_eq ${object.array[0]} 1
    assert_eq ${object.array[1]} 2
    assert_eq ${object.array[2]} 3
    jsonstring = json_encode object
    found = contains ${jsonstring} "\"str\":\"my string value\""
    assert ${found}
    found = contains ${jsonstring} "\"number\":\"500\""
    assert ${found}
    found = contains ${jsonstring} "\"bool\":\"true\""
    assert ${found}
    found = contains ${jsonstring} "\"array\":[\"1\",\"2\",\"3\"]"
    assert ${found}

    # we can cleanup all variables created from the json parse starting from the root object
    unset_all_vars --prefix object
    defined = is_defined object
    assert_false ${defined}
    defined = is_defined object.str
    assert_false ${defined}
    defined = is_defined object.array.length
    assert_false ${defined}
end
```



<a name="std__json__Encode"></a>
## `std::json::Encode`
```sh
string = json_encode (--collection handle | var_name)
```

This function will encode all variables, starting from the root variable as a JSON string.<br>
Since duckscript is untyped, all boolean and numeric values will be encoded as strings.<br>
If --collection is passed, the provided value is considered as string or a map/array handle which is used to fetch
the tree data and create the json string.

### Parameters

* Option --collection flag to make the encoding use the maps/arrays and values
* The root variable name (or a handle/value in case --collection is provided)

### Return Value

The JSON string

### Examples

```sh
# will parse and encode to plain variables
package = json_parse "{\"name\": \"my package\", \"version\": 1, \"publish\": false, \"keywords\": [\"test1\", \"test2\"], \"directories\": {\"test\": \"spec\"}}"
jsonstring = json_encode package

# will parse and encode to maps/arrays
package = json_parse --collection "{\"name\": \"my package\", \"version\": 1, \"publish\": false, \"keywords\": [\"test1\", \"test2\"], \"directories\": {\"test\": \"spec\"}}"
jsonstring = json_encode --collection ${package}
```


### Aliases:
json_encode

<a name="std__json__Parse"></a>
## `std::json::Parse`
```sh
var = json_parse [--collection] string
```

This function will parse the provided JSON string and will create variables based on the parsed data.<br>
The variables will reflect the json structure.<br>
Object keys will have name using the json path standard, for example root.child<br>
And arrays will have the array access annotation and length variable, for example:

```sh
root.child[5]
root.child.length
```

In case the --collection flag is provided, it will instead create maps/array as needed and return the root handle (or primitive value) of
the json data.
Make sure to use the release with the recursive flag on the root object to release the entire memory once done.

### Parameters

* Optional --collection flag to parse and return value/map/array
* The JSON string to parse.

### Return Value

The root value/handle.

### Examples

```sh
# parse to simple variables
package = json_parse "{\"name\": \"my package\", \"version\": 1, \"publish\": false, \"keywords\": [\"test1\", \"test2\"], \"directories\": {\"test\": \"spec\"}}"

assert_eq ${package} "[OBJECT]"
assert_eq ${package.name} "my package"
assert_eq ${package.version} 1
assert_eq ${package.publish} false
assert_eq ${package.keywords.length} 2
assert_eq ${package.keywords[0]} test1
assert_eq ${package.keywords[1]} test2
assert_eq ${package.directories.test} spec

# parse to maps/arrays
package = json_parse --collection "{\"name\": \"my package\", \"version\": 1, \"publish\": false, \"keywords\": [\"test1\", \"test2\"], \"directories\": {\"test\": \"spec\"}}"
name = map_get ${package} name
assert_eq ${name} "my package"
version = map_get ${package} version
assert_eq ${version} 1
public = map_get ${package} public
assert_false ${public}
keywords_handle = map_get ${package} keywords
length = array_length ${keywords_handle}
assert_eq ${length} 2
value = array_pop ${keywords_handle}
assert_eq ${value} test2
value = array_pop ${keywords_handle}
assert_eq ${value} test1
directories = map_get ${package} directories
directory = map_get ${directories} test
assert_eq ${directory} spec
release --recursive ${package}
```


### Aliases:
json_parse

<a name="std__lib__alias__Set"></a>
## `std::lib::alias::Set`
```sh
var = alias command arguments
```

This command enables to define new commands with default arguments.<br>
The new alias can be invoked with additional arguments that will be appended to the default set.

### Parameters

Any number of arguments which will be added to the already defined arguments set during the aliasing.

### Return Value

**true** if the alias was created, else **false**.

### Examples

```sh
# This example creates a new **my_echo** alias that will print the prefix before the requested arguments.
created = alias my_echo echo [ECHO]

# This will print "[ECHO] hello world "
created = my_echo hello world
```


### Aliases:
alias

<a name="std__lib__alias__Unset"></a>
## `std::lib::alias::Unset`
```sh
unalias name
```

Removes previously defined alias and return true/false based if an alias was actually removed.

### Parameters

The alias name to remove.

### Return Value

A true/false value in case an alias with the provided name existed.

### Examples

```sh
alias my_echo echo [ECHO]

# This will print "[ECHO] hello world "
my_echo hello world

unalias my_echo

# This will error
echo The script will now error as my_echo is no longer defined
my_echo hello world
```


### Aliases:
unalias

<a name="std__lib__command__Remove"></a>
## `std::lib::command::Remove`
```sh
remove_command name
```

Removes a command and all its aliases.

### Parameters

The command or alias name to remove.

### Return Value

A true/false value in case a command was removed.

### Examples

```sh
remove_command set
```


### Aliases:
remove_command

<a name="std__math__Calc"></a>
## `std::math::Calc`
```sh
var = calc [operation]
```

The calc command accepts multiple arguments which make up a mathematical operation which will be
calculated and its result will be returned.

### Parameters

Any number of arguments which will construct a line to calculate.

### Return Value

The result of the mathematical calculation.

### Examples

```sh
# result is 36
result = calc 1 + 5 * 7
```


### Aliases:
calc

<a name="std__math__GreaterThan"></a>
## `std::math::GreaterThan`
```sh
var = greater_than left right
```

This command returns true/false based on left > right calculation.

### Parameters

Two numeric values to compare.

### Return Value

True if first argument is bigger than second argument.

### Examples

```sh
result = greater_than 2 1.5
```


### Aliases:
greater_than

<a name="std__math__HexDecode"></a>
## `std::math::HexDecode`
```sh
num = hex_decode str
```

Decode a hexadecimal string to the corresponding integer number.<br>
No support for negative numbers.

### Parameters

A hexadecimal string.

### Return Value

The corresponding integer number.

### Examples

```sh
hex_num = set 0xff
num = hex_decode ${hex_num}
res = calc ${num} + 1

assert_eq ${res} 256
```


### Aliases:
hex_decode

<a name="std__math__HexEncode"></a>
## `std::math::HexEncode`
```sh
str = hex_encode num
```

Converts an integer number to the corresponding hexadecimal string.<br>
No support for negative numbers.

### Parameters

An integer number.

### Return Value

The corresponding hexadecimal string.

### Examples

```sh
str = hex_encode 255

assert_eq ${str} 0xff
```


### Aliases:
hex_encode

<a name="std__math__LessThan"></a>
## `std::math::LessThan`
```sh
var = less_than left right
```

This command returns true/false based on left < right calculation.

### Parameters

Two numeric values to compare.

### Return Value

True if first argument is smaller than second argument.

### Examples

```sh
result = less_than 1 1.5
```


### Aliases:
less_than

<a name="std__net__Hostname"></a>
## `std::net::Hostname`
```sh
var = hostname
```

Returns the hostname.

### Parameters

None

### Return Value

The hostname

### Examples

```sh
name = hostname
```


### Aliases:
hostname

<a name="std__net__HttpClient"></a>
## `std::net::HttpClient`
```sh
var = http_client [--method method] [--payload payload] [--output-file file] URL
```

Invokes a HTTP request.<br>
The request method by default is GET but can be modified by the ```--method``` parameter.<br>
The ```--output-file``` parameter will redirect a valid response output to the provided file, otherwise all response text will be set to the
output variable.<br>
When redirecting to file, the output would be the response size.<br>
The ```--payload``` parameter enables to pass a payload to POST http requests.<br>
In case of errors or error HTTP response codes, false will be returned.

### Parameters

* Optional HTTP Method, for example ```--method GET``` or ```--method POST``` (currently only GET and POST are supported).
* Optional post payload via ```--payload``` parameter.
* Optional redirection of output to file via ```--output-file``` parameter.
* The target URL

### Return Value

The response text or in case of output redirection to file, the response size.<br>
In case of errors, it will return false.

### Examples

```sh
function test_get
    response = http_client https://www.rust-lang.org/

    found = contains ${response} Rust

    assert ${found}
end

function test_get_to_file
    file = set ./target/_duckscript_test/http_client/page.html
    rm ${file}

    response_size = http_client --output-file ${file} https://www.rust-lang.org/

    response = readfile ${file}
    found = contains ${response} Rust

    assert ${found}
    assert ${response_size}
end

function test_post
    payload = set {\"login\":\"login\",\"password\":\"password\"}
    response = http_client --method POST --payload ${payload} https://reqbin.com/echo/post/json

    found = contains ${response} success

    assert ${found}
end
```


### Aliases:
http_client

<a name="std__net__WGet"></a>
## `std::net::WGet`

```sh
var = wget [--method=HTTP-method] [--post-data=payload] [-O file] URL
```

Invokes a HTTP request.<br>
The request method by default is GET but can be modified by the ```--method``` parameter.<br>
The ```-O``` parameter will redirect a valid response output to the provided file, otherwise all response text will be set to the
output variable.<br>
When redirecting to file, the output would be the response size.<br>
The ```--post-data``` parameter enables to pass a payload to POST http requests.<br>
In case of errors or error HTTP response codes, false will be returned.

### Parameters

* Optional HTTP Method, for example --method=HTTP-GET or --method=HTTP-POST (currently only GET and POST are supported).
* Optional post payload via ```--post-data``` parameter.
* Optional redirection of output to file via ```-O``` parameter.
* The target URL

### Return Value

The response text or in case of output redirection to file, the response size.<br>
In case of errors, it will return false.

### Examples

```sh
function test_get
    response = wget https://www.rust-lang.org/

    found = contains ${response} Rust

    assert ${found}
end

function test_get_to_file
    file = set ./target/_duckscript_test/wget/page.html
    rm ${file}

    response_size = wget -O ${file} https://www.rust-lang.org/

    response = readfile ${file}
    found = contains ${response} Rust

    assert ${found}
    assert ${response_size}
end

function test_post
    payload = set {\"login\":\"login\",\"password\":\"password\"}
    response = wget --method=HTTP-POST --post-data=${payload} https://reqbin.com/echo/post/json

    found = contains ${response} success

    assert ${found}
end
```


#### Source:
<details>
  <summary>Show Source</summary>

```sh

scope::wget::url = array_pop ${scope::wget::arguments}

scope::wget::method = set GET

scope::wget::lookingfor = set flag
for scope::wget::arg in ${scope::wget::arguments}
    if equals ${scope::wget::lookingfor} flag
        if starts_with ${scope::wget::arg} --method=HTTP-
            scope::wget::len = strlen --method=HTTP-
            scope::wget::method = substring ${scope::wget::arg} ${scope::wget::len}
        elif starts_with ${scope::wget::arg} --post-data=
            scope::wget::len = strlen --post-data=
            scope::wget::payload = substring ${scope::wget::arg} ${scope::wget::len}
        elif equals ${scope::wget::arg} -O
            scope::wget::lookingfor = set file
        end
    elif equals ${scope::wget::lookingfor} file
        scope::wget::file = set ${scope::wget::arg}
        scope::wget::lookingfor = set flag
    end
end

http_client --method "${scope::wget::method}" --output-file "${scope::wget::file}" --payload "${scope::wget::payload}" ${scope::wget::url}

```
</details>



### Aliases:
wget

<a name="std__net__ftp__Get"></a>
## `std::net::ftp::Get`
```sh
result = ftp_get --host <hostname> [--port 21] [--username <user name>] [--password <password>] [--path <path>] [--type <A/I>] --remote-file <file name> --local-file <file name>
```

Invokes the FTP GET command from the given connection and file details.

### Parameters

* --host - The host name or IP to connect to
* --port - Optional port number to use (by default 21)
* --username - Optional user name used to login (if not user or password provided, no login operation will be invoked)
* --password - Optional password used to login (if not user or password provided, no login operation will be invoked)
* --path - Optional path on the remote server to invoke operation on
* --type - Optional setting of the transfer type as A (ascii) I (image, binary)
* --remote-file - The remote file to download
* --local-file - The target local file name

### Return Value

true if operation was completed.

### Examples

```sh
ftp_get --host myhost --username someuser --password 12345 --remote-file README.md --local-file README.md
```


### Aliases:
ftp_get

<a name="std__net__ftp__GetInMemory"></a>
## `std::net::ftp::GetInMemory`
```sh
handle = ftp_get_in_memory --host <hostname> [--port 21] [--username <user name>] [--password <password>] [--path <path>] [--type <A/I>] --remote-file <file name>
```

Invokes the FTP GET command from the given connection and file details.

### Parameters

* --host - The host name or IP to connect to
* --port - Optional port number to use (by default 21)
* --username - Optional user name used to login (if not user or password provided, no login operation will be invoked)
* --password - Optional password used to login (if not user or password provided, no login operation will be invoked)
* --path - Optional path on the remote server to invoke operation on
* --type - Optional setting of the transfer type as A (ascii) I (image, binary)
* --remote-file - The remote file to download

### Return Value

The binary data handle.

### Examples

```sh
handle = ftp_get_in_memory --host myhost --username someuser --password 12345 --remote-file README.md
text = bytes_to_string ${handle}
```


### Aliases:
ftp_get_in_memory

<a name="std__net__ftp__List"></a>
## `std::net::ftp::List`
```sh
handle = ftp_list --host <hostname> [--port 21] [--username <user name>] [--password <password>] [--path <path>]
```

Invokes the FTP LIST command from the given connection details and path.<br>
Returns a handle to an array of all response entries.

### Parameters

* --host - The host name or IP to connect to
* --port - Optional port number to use (by default 21)
* --username - Optional user name used to login (if not user or password provided, no login operation will be invoked)
* --password - Optional password used to login (if not user or password provided, no login operation will be invoked)
* --path - Optional path on the remote server to invoke operation on

### Return Value

A handle to an array holding all entries.

### Examples

```sh
handle = ftp_list --host myhost --username someuser --password 12345

for entry in ${handle}
    echo ${entry}
end
```


### Aliases:
ftp_list

<a name="std__net__ftp__NLst"></a>
## `std::net::ftp::NLst`
```sh
handle = ftp_nlst --host <hostname> [--port 21] [--username <user name>] [--password <password>] [--path <path>]
```

Invokes the FTP NLST command from the given connection details and path.<br>
Returns a handle to an array of all response entries.

### Parameters

* --host - The host name or IP to connect to
* --port - Optional port number to use (by default 21)
* --username - Optional user name used to login (if not user or password provided, no login operation will be invoked)
* --password - Optional password used to login (if not user or password provided, no login operation will be invoked)
* --path - Optional path on the remote server to invoke operation on

### Return Value

A handle to an array holding all entries.

### Examples

```sh
handle = ftp_nlst --host myhost --username someuser --password 12345

for entry in ${handle}
    echo ${entry}
end
```


### Aliases:
ftp_nlst

<a name="std__net__ftp__Put"></a>
## `std::net::ftp::Put`
```sh
result = ftp_put --host <hostname> [--port 21] [--username <user name>] [--password <password>] [--path <path>] [--type <A/I>] --remote-file <file name> --local-file <file name>
```

Invokes the FTP PUT command from the given connection and file details.

### Parameters

* --host - The host name or IP to connect to
* --port - Optional port number to use (by default 21)
* --username - Optional user name used to login (if not user or password provided, no login operation will be invoked)
* --password - Optional password used to login (if not user or password provided, no login operation will be invoked)
* --path - Optional path on the remote server to invoke operation on
* --type - Optional setting of the transfer type as A (ascii) I (image, binary)
* --remote-file - The remote file to upload
* --local-file - The source local file to upload

### Return Value

true if operation was completed.

### Examples

```sh
ftp_put --host myhost --username someuser --password 12345 --remote-file README.md --local-file README.md
```


### Aliases:
ftp_put

<a name="std__net__ftp__PutInMemory"></a>
## `std::net::ftp::PutInMemory`
```sh
result = ftp_put_in_memory --host <hostname> [--port 21] [--username <user name>] [--password <password>] [--path <path>] [--type <A/I>] --remote-file <file name> --content <content>
```

Invokes the FTP PUT command from the given connection and file details.

### Parameters

* --host - The host name or IP to connect to
* --port - Optional port number to use (by default 21)
* --username - Optional user name used to login (if not user or password provided, no login operation will be invoked)
* --password - Optional password used to login (if not user or password provided, no login operation will be invoked)
* --path - Optional path on the remote server to invoke operation on
* --type - Optional setting of the transfer type as A (ascii) I (image, binary)
* --remote-file - The remote file to upload
* --content - The textual content to upload

### Return Value

true if operation was completed.

### Examples

```sh
ftp_put_in_memory --host myhost --username someuser --password 12345 --remote-file README.md --content "This is the README content"
```


### Aliases:
ftp_put_in_memory

<a name="std__process__Execute"></a>
## `std::process::Execute`
```sh
exec [--fail-on-error|--get-exit-code] [--input value] command [args]*

output = exec command [args]*
stdout = set ${output.stdout}
stderr = set ${output.stderr}
exit_code = set ${output.code}

exit_code = exec --get-exit-code command [args]*
```

Executes the provided native command and arguments.<br>
If no output variable is set, the command output will be flushed to the main out/err stream of the parent process.<br>
In addition, in order to fail the command in case of the child process failed, add the --fail-on-error flag.<br>
If an output variable is set, it will be used as a base variable name from which the command stout, stderr and exit code information can be pulled from.<br>
The actual output variable name will not be modified, instead new variables will be created using that variable name as a baseline:

* *output*.stdout - Will hold the stdout text content.
* *output*.stderr - Will hold the stderr text content.
* *output*.code - Will hold the process exit code.

If an output variable is set and the --get-exit-code flag is provided, the output will only contain the exit code.

### Parameters

* --fail-on-error - If no output variable is provided, it will cause an error in case the executed process exits with an error exit code.
* --get-exit-code - If an output variable is provided, it will contain the exit code.
* --input - Optional content to be sent to the child process input stream.
* The command to execute and its arguments.

### Return Value

Optionally a base name to access the process stout, stderr and exit code information.

### Examples

```sh
# Example of running a command and flushing its output to the parent process.
exec echo hello world

# Example of running a command and storing its output.
output = exec echo hello world

stdout = set ${output.stdout}
stderr = set ${output.stderr}
exit_code = set ${output.code}

echo stdout: ${stdout}
echo stderr: ${stderr}
echo exit code: ${exit_code}
```


### Aliases:
exec

<a name="std__process__Exit"></a>
## `std::process::Exit`
```sh
code = exit [code]
```

Exits the script with the given code stored in the output variable.

### Parameters

A number as exit code or none for 0.

### Return Value

The exit code.

### Examples

```sh
# exit with code '0'
code = exit

# exit with code '1'
code = exit 1
```


### Aliases:
exit, quit, q

<a name="std__process__ProcessID"></a>
## `std::process::ProcessID`
```sh
var = pid
```

Returns the current process ID.

### Parameters

None

### Return Value

The current process ID.

### Examples

```sh
id = pid
```


### Aliases:
pid, process_id

<a name="std__process__Spawn"></a>
## `std::process::Spawn`
```sh
pid = spawn [--silent] [--input value] command [args]*
```

Executes the provided native command and arguments.<br>
It will not wait for the process to finish and will return the process pid.

### Parameters

* Optional --silent flag to suppress any output.
* --input - Optional content to be sent to the child process input stream.
* The command to execute and its arguments.

### Return Value

The process pid.

### Examples

```sh
pid = spawn echo test

echo PID: ${pid}
```


### Aliases:
spawn

<a name="std__process__Watchdog"></a>
## `std::process::Watchdog`
```sh
count = watchdog [--max-retries value] [--interval value] [--input value] -- command [arguments]*
```

Executes the provided native command and arguments.<br>
In case the command exited it will be executed again up to the max retries provided.<br>
The watchdog will wait the specified interval in milliseconds between invocations.<br>
In case of an invalid command, the watchdog will not reattempt the invocation and will exit without retries.

### Parameters

* --max-retries - Value of max retries (excluding the first invocation). value < 0 for unlimited retries. Default is unlimited.
* --interval - The amount in milliseconds between retries. 0 for no waiting between invocations. Default is no wait.
* --input - Optional content to be sent to the child process input stream.
* The command to execute (preceded by a **--** separator).
* The command arguments.

### Return Value

The amount of invocations or false in case of any error.

### Examples

```sh
count = watchdog --max-retries 0 -- echo test
assert_eq ${count} 1

count = watchdog --max-retries 3 --interval 10 -- echo test
assert_eq ${count} 4
```


### Aliases:
watchdog

<a name="std__random__Range"></a>
## `std::random::Range`
```sh
output = random_range min max
```

Generate a random value in the range of min and max values provided, i.e. inclusive of min and exclusive of max.

### Parameters

* min - The min range value (inclusive)
* max - The max range value (exclusive)

### Return Value

The generated numeric value.

### Examples

```sh
value = random_range -10 10
echo ${value}
```


### Aliases:
random_range, rand_range

<a name="std__random__Text"></a>
## `std::random::Text`
```sh
output = random_text [length]
```

Generates random alphanumeric text with the requested length (length is 1 if not provided).

### Parameters

Optional text length. Length is defaulted to 1 if not provided.

### Return Value

The generated alphanumeric value.

### Examples

```sh
value = random_text 50
echo ${value}
```


### Aliases:
random_text, rand_text

<a name="std__scope__Clear"></a>
## `std::scope::Clear`
```sh
clear_scope name
```

Clears all variables which are prefixed with the provided name + ::.<br>
For example, if the value provided is **my_scope** all variables that start with **my_scope::** will be removed.

### Parameters

The scope name.

### Return Value

None.

### Examples

```sh
testscope = set true
testscope::1 = set 1
testscope::subscope::1 = set 1

assert_eq ${testscope} true
defined = is_defined testscope::1
assert ${defined}
assert_eq ${testscope::1} 1
defined = is_defined testscope::subscope::1
assert ${defined}
assert_eq ${testscope::subscope::1} 1

clear_scope testscope

assert_eq ${testscope} true

defined = is_defined testscope::1
assert_false ${defined}
defined = is_defined testscope::subscope::1
assert_false ${defined}
```


### Aliases:
clear_scope

<a name="std__scope__PopStack"></a>
## `std::scope::PopStack`
```sh
scope_pop_stack [--copy name1 name2 ...]
```

Removes all known variables except for the variables provided by the optional --copy argument and than restores the
previously pushed stack.<br>
Functions with the **<scope>** annotation will automatically invoke this command when they end or return a value.

### Parameters

Optional variable names to keep.

### Return Value

None.

### Examples

```sh
var1 = set 1
var2 = set 2

scope_push_stack --copy var2

defined = is_defined var1
echo ${defined}
defined = is_defined var2
echo ${defined}

var3 = set 3
var4 = set 4

scope_pop_stack --copy var4

defined = is_defined var1
echo ${defined}
defined = is_defined var2
echo ${defined}
defined = is_defined var3
echo ${defined}
defined = is_defined var4
echo ${defined}
```


### Aliases:
scope_pop_stack

<a name="std__scope__PushStack"></a>
## `std::scope::PushStack`
```sh
scope_push_stack [--copy name1 name2 ...]
```

Removes all known variables except for the variables provided by the optional --copy argument.<br>
Functions with the **<scope>** annotation will automatically invoke this command and keep only the relevant
function arguments in the new scope.

### Parameters

Optional variable names to keep.

### Return Value

None.

### Examples

```sh
var1 = set 1
var2 = set 2

scope_push_stack --copy var2

defined = is_defined var1
echo ${defined}
defined = is_defined var2
echo ${defined}
```


### Aliases:
scope_push_stack

<a name="std__semver__IsEqual"></a>
## `std::semver::IsEqual`
```sh
output = semver_is_equal value1 value2
```

Returns true if both semver values are valid and equal.

### Parameters

Two semver values to compare.

### Return Value

True if both semver values are valid and equal, else false.

### Examples

```sh
equal = semver_is_equal 1.2.3 1.2.3
assert ${equal}

equal = semver_is_equal 1.2.3 2.2.3
assert_false ${equal}
```


### Aliases:
semver_is_equal

<a name="std__semver__IsNewer"></a>
## `std::semver::IsNewer`
```sh
output = semver_is_newer newer older
```

Returns true if both semver values are valid and first value is newer.

### Parameters

* The expected newer value
* The expected older value

### Return Value

True if both semver values are valid and first value is newer, else false.

### Examples

```sh
newer = semver_is_newer 3.2.3 2.2.3
assert ${newer}

newer = semver_is_newer 1.2.3 2.2.3
assert_false ${newer}

newer = semver_is_newer 1.2.3 1.2.3
assert_false ${newer}
```


### Aliases:
semver_is_newer

<a name="std__semver__Parse"></a>
## `std::semver::Parse`
```sh
base = semver_parse value
```

Parses the provided value and sets the major, minor and patch variables.<br>
The variable names are based on the output variable name, for example if the output variable name is out:

* out.major - Holds the output major version
* out.minor - Holds the output minor version
* out.patch - Holds the output patch version

### Parameters

The semver value.

### Return Value

The major, minor and patch values.

### Examples

```sh
version = semver_parse 1.2.3

echo ${version.major}
echo ${version.minor}
echo ${version.patch}
```


### Aliases:
semver_parse

<a name="std__string__Base64"></a>
## `std::string::Base64`

```sh
var = base64 [-e] [-encode] [-d] [-decode] value
```

Invokes the base64 encode/decode command with the provided value.<br>
This command allows for a more similar cli command which wraps the base64_encode and base64_decode commands.

### Parameters

* Optional -e or -encode flags to set the mode to encode (default)
* Optional -d or -decode flags to set the mode to decode
* The value, in case of encoding this is the binary handle, in case of decoding this is the base64 textual value.

### Return Value

* In case of encoding, the base64 textual value will be returned.
* In case of decoding, a handle to the binary data will be returned.

### Examples

```sh
handle = string_to_bytes "hello world"
text = base64 ${handle}
release ${handle}
assert_eq ${text} aGVsbG8gd29ybGQ=

handle = base64 -decode ${text}
text = bytes_to_string ${handle}
release ${handle}
assert_eq ${text} "hello world"
```


#### Source:
<details>
  <summary>Show Source</summary>

```sh

scope::base64::input_data = array_pop ${scope::base64::arguments}
scope::base64::encode = set true

for scope::base64::arg in ${scope::base64::arguments}
    if equals ${scope::base64::arg} -e
         scope::base64::encode = set true
    elif equals ${scope::base64::arg} -encode
         scope::base64::encode = set true
    elif equals ${scope::base64::arg} -d
         scope::base64::encode = set false
    elif equals ${scope::base64::arg} -decode
         scope::base64::encode = set false
    end
end

if ${scope::base64::encode}
    scope::base64::output = base64_encode ${scope::base64::input_data}
else
    scope::base64::output = base64_decode ${scope::base64::input_data}
end

scope::base64::output = set ${scope::base64::output}

```
</details>



### Aliases:
base64

<a name="std__string__Base64Decode"></a>
## `std::string::Base64Decode`
```sh
text = base64_encode handle
```

Encodes using base64 the provided binary data and returns the encoded text value.<br>
The binary data is provided as a handle.

### Parameters

The handle to the binary data to encode.

### Return Value

The encoded textual value.

### Examples

```sh
handle = string_to_bytes "hello world"
text = base64_encode ${handle}

release ${handle}

assert_eq ${text} "hello world"
```


### Aliases:
base64_decode

<a name="std__string__Base64Encode"></a>
## `std::string::Base64Encode`
```sh
text = base64_encode handle
```

Encodes using base64 the provided binary data and returns the encoded text value.<br>
The binary data is provided as a handle.

### Parameters

The handle to the binary data to encode.

### Return Value

The encoded textual value.

### Examples

```sh
handle = string_to_bytes "hello world"
text = base64_encode ${handle}

release ${handle}

assert_eq ${text} "hello world"
```


### Aliases:
base64_encode

<a name="std__string__BytesToString"></a>
## `std::string::BytesToString`
```sh
text = bytes_to_string handle
```

Converts the provided UTF-8 binary array to string and returns it.

### Parameters

A handle to a binary array holding UTF-8 text.

### Return Value

The textual data.

### Examples

```sh
handle = string_to_bytes "hello world"
text = bytes_to_string ${handle}

release ${handle}

assert_eq ${text} "hello world"
```


### Aliases:
bytes_to_string

<a name="std__string__CamelCase"></a>
## `std::string::CamelCase`
```sh
var = camelcase text
```

Converts the provided string into camel case.
All non-alphanumeric characters are ignored.

### Parameters

The string to convert.

### Return Value

The converted string.

### Examples

```sh
string = camelcase "hello, world!"
assert_eq ${string} "HelloWorld"
```



### Aliases:
camelcase

<a name="std__string__Concat"></a>
## `std::string::Concat`

```sh
var = concat [value]*
```

Concats the provided input into a single string and returns it.

### Parameters

Any number of values to concat.

### Return Value

The result of the concatenation of all input values.

### Examples

```sh
output = concat 1 2 3 4
assert_eq ${output} 1234

output = concat 1 "2 3" 4
assert_eq ${output} "12 34"
```


#### Source:
<details>
  <summary>Show Source</summary>

```sh

scope::concat::output = set ""
for scope::concat::arg in ${scope::concat::arguments}
    scope::concat::output = set "${scope::concat::output}${scope::concat::arg}"
end

set ${scope::concat::output}

```
</details>



### Aliases:
concat

<a name="std__string__Contains"></a>
## `std::string::Contains`
```sh
var = contains all partial
```

Returns true if the first argument contains the value of the second argument.

### Parameters

* The full text to search in
* The text to search for

### Return Value

**true** if contains.

### Examples

```sh
# valid conditions
result = contains abcd bc

value = set "some text"
result = contains ${value} "me tex"

# will return false
result = contains abcd b1c
```


### Aliases:
contains

<a name="std__string__EndsWith"></a>
## `std::string::EndsWith`
```sh
var = ends_with all partial
```

Returns true if the first argument ends with the value of the second argument.

### Parameters

* The full text to search in
* The suffix text to search for

### Return Value

**true** if ends with.

### Examples

```sh
# valid conditions
result = ends_with abcd abc

value = set "some text"
result = ends_with ${value} "me text"

# will return false
result = ends_with abcd abc
```


### Aliases:
ends_with

<a name="std__string__Equals"></a>
## `std::string::Equals`
```sh
var = eq value1 value2
```

Returns true if both provided values are equal.

### Parameters

Two values to evaluate if they are equal

### Return Value

**true** if equal.

### Examples

```sh
# valid conditions
is_same = eq yes yes
is_same = eq false false

value = set "some text"
is_same = eq ${value} "some text"

# will return false
is_same = eq 1 2
```


### Aliases:
equals, eq

<a name="std__string__IndexOf"></a>
## `std::string::IndexOf`
```sh
var = indexof full_text text_to_find
```

This command will attempt to find the text from the second argument inside the text in the first argument.<br>
If found, an index value will be returned, otherwise none is returned.

### Parameters

* The text to search in
* The text to find

### Return Value

The index of the text found or none if not found.

### Examples

```sh
index = indexof "    some  text   " some 
```


### Aliases:
indexof

<a name="std__string__IsEmpty"></a>
## `std::string::IsEmpty`
```sh
var = is_empty value
```

Returns true if the provided value is none or an empty string.

### Parameters

The value to validate.

### Return Value

True if the provided value is none or an empty string.

### Examples

```sh
value = set "hello world"
empty = is_empty ${value}
```


### Aliases:
is_empty

<a name="std__string__KebabCase"></a>
## `std::string::KebabCase`
```sh
var = kebobcase text
```

Converts the provided string into kebob case.
All non-alphanumeric characters are ignored.

### Parameters

The string to convert.

### Return Value

The converted string.

### Examples

```sh
string = kebobcase "Hello, World!"
assert_eq ${string} "hello-world"
```



### Aliases:
kebabcase

<a name="std__string__LastIndexOf"></a>
## `std::string::LastIndexOf`
```sh
var = last_indexof full_text text_to_find
```

This command will attempt to find the text from the second argument inside the text in the first argument.<br>
If found, an index value will be returned, otherwise none is returned.<br>
Unlike the **indexof** command, this command will search for text starting at the end, going backwards.

### Parameters

* The text to search in
* The text to find

### Return Value

The index of the text found or none if not found.

### Examples

```sh
index = last_indexof "    some  text   " some
```


### Aliases:
last_indexof

<a name="std__string__Length"></a>
## `std::string::Length`
```sh
var = length text
```

Returns the text length.

### Parameters

The text to extract the length from.

### Return Value

The text length value.

### Examples

```sh
len = length "Hello World"
```


### Aliases:
length, strlen

<a name="std__string__Lowercase"></a>
## `std::string::Lowercase`
```sh
var = lowercase text
```

Converts the provided string into lowercase.

### Parameters

The string to convert.

### Return Value

The converted string.

### Examples

```sh
string = lowercase "Hello World"
assert_eq ${string} "hello world"
```



### Aliases:
lowercase

<a name="std__string__Replace"></a>
## `std::string::Replace`
```sh
var = replace text from to
```

Returns new value of text after replacing all from values to the provided to values.

### Parameters

* The full text
* The from text
* The to text

### Return Value

The updated text.

### Examples

```sh
text = set "my large text value with lots of text"
updated = replace ${text} text stuff

assert_eq ${updated} "my large stuff value with lots of stuff"
```


### Aliases:
replace

<a name="std__string__SnakeCase"></a>
## `std::string::SnakeCase`
```sh
var = snakecase text
```

Converts the provided string into snake case.
All non-alphanumeric characters are ignored.

### Parameters

The string to convert.

### Return Value

The converted string.

### Examples

```sh
string = snakecase "Hello, World!"
assert_eq ${string} "hello_world"
```



### Aliases:
snakecase

<a name="std__string__Split"></a>
## `std::string::Split`
```sh
handle = split text pattern
```

Splits the provided text based on the provided pattern and return a handle the
created array with all the split values.

### Parameters

* The text to split
* The pattern to split by

### Return Value

A handle to the values array.

### Examples

```sh
handle = split a23b23c23d23e 23

len = array_length ${handle}

value = array_pop ${handle}
assert_eq ${value} e
value = array_pop ${handle}
assert_eq ${value} d
value = array_pop ${handle}
assert_eq ${value} c
value = array_pop ${handle}
assert_eq ${value} b
value = array_pop ${handle}
assert_eq ${value} a

release ${handle}

assert_eq ${len} 5
```


### Aliases:
split

<a name="std__string__StartsWith"></a>
## `std::string::StartsWith`
```sh
var = starts_with all partial
```

Returns true if the first argument starts with the value of the second argument.

### Parameters

* The full text to search in
* The prefix text to search for

### Return Value

**true** if starts with.

### Examples

```sh
# valid conditions
result = starts_with abcd abc

value = set "some text"
result = starts_with ${value} "some te"

# will return false
result = starts_with abcd bcd
```


### Aliases:
starts_with

<a name="std__string__StringToBytes"></a>
## `std::string::StringToBytes`
```sh
handle = string_to_bytes text
```

Converts the provided string into binary format and returns a handle to the binary data.

### Parameters

The text to convert.

### Return Value

A handle to the binary data.

### Examples

```sh
handle = string_to_bytes "hello world"
text = bytes_to_string ${handle}

release ${handle}

assert_eq ${text} "hello world"
```


### Aliases:
string_to_bytes

<a name="std__string__SubString"></a>
## `std::string::SubString`
```sh
var = substring text
var = substring text start end
var = substring text start
var = substring text -end
```

The substring command will create a new string value from the text provided in the range requested.

### Parameters

* The text to substring from
* Additional parameters
    * None - start index is 0 and end index is the text length
    * Two arguments - First is the start index and second is the end index
    * One argument
        * If >= 0 it defines the start index and end index is the text length
        * If < 0 it defines the end index going backwards from the end of the text. Start index is 0.

### Return Value

The substring value or false in case of error.

### Examples

```sh
# string is 'Hello World'
string = substring "Hello World"
echo ${string}

# string is 'll'
string = substring "Hello World" 2 4
echo ${string}

# string is 'llo World'
string = substring "Hello World" 2
echo ${string}

# string is 'Hello W'
string = substring "Hello World" -4
echo ${string}
```


### Aliases:
substring

<a name="std__string__Trim"></a>
## `std::string::Trim`
```sh
var = trim value
```

Returns the provided value with leading and trailing whitespace removed.

### Parameters

The value to trim.

### Return Value

The trimmed value. If no input provided, this command will return none.

### Examples

```sh
# trimmed will now hold "some  text"
trimmed = trim "  some  text   "
```


### Aliases:
trim

<a name="std__string__TrimEnd"></a>
## `std::string::TrimEnd`
```sh
var = trim_end value
```

Returns the provided value with trailing whitespace removed.

### Parameters

The value to trim.

### Return Value

The trimmed value. If no input provided, this command will return none.

### Examples

```sh
# trimmed will now hold "  some  text"
trimmed = trim_end "  some  text   "
```


### Aliases:
trim_end

<a name="std__string__TrimStart"></a>
## `std::string::TrimStart`
```sh
var = trim_start value
```

Returns the provided value with leading whitespace removed.

### Parameters

The value to trim.

### Return Value

The trimmed value. If no input provided, this command will return none.

### Examples

```sh
# trimmed will now hold "some  text   "
trimmed = trim_start "  some  text   "
```


### Aliases:
trim_start

<a name="std__string__Uppercase"></a>
## `std::string::Uppercase`
```sh
var = uppercase text
```

Converts the provided string into uppercase.

### Parameters

The string to convert.

### Return Value

The converted string.

### Examples

```sh
string = uppercase "Hello World"
assert_eq ${string} "HELLO WORLD"
```



### Aliases:
uppercase

<a name="std__test__Assert"></a>
## `std::test::Assert`
```sh
assert value [error message]
```

Used to validate the input is truthy.<br>
If the value is one of the following:

* No output
* false (case insensitive)
* 0
* no (case insensitive)
* Empty value

It is considered falsy and will exist with an error.

### Parameters

* The value to evaluate
* Optional error message

### Return Value

**true** if truthy.

### Examples

```sh
# valid conditions
assert ok
assert true
assert yes

value = set "some text"
assert ${value}

# error conditions (each one will break the execution)
assert
assert false
assert 0
assert false "This is my error message"
```


### Aliases:
assert

<a name="std__test__AssertEquals"></a>
## `std::test::AssertEquals`
```sh
assert_eq value1 value2 [error message]
```

Used to validate the input is the same.<br>
If they are not, the command will exist with an error.

### Parameters

* Two values to evaluate if they are equal
* Optional error message

### Return Value

**true** if equal.

### Examples

```sh
# valid conditions
assert_eq yes yes
assert_eq false false

value = set "some text"
assert_eq ${value} "some text"

# error conditions (each one will break the execution)
assert_eq 1 2
assert_eq 1 2 "This is my error message"
```


### Aliases:
assert_eq

<a name="std__test__AssertError"></a>
## `std::test::AssertError`
```sh
assert_error [error message]
```

This command will cause a runtime error which will not stop the script execution.<br>
If error message is provided, it will be used as part of the error output.

### Parameters

Optional error message.

### Return Value

None

### Examples

```sh
assert_error

assert_error "This is my error message"
```


### Aliases:
assert_error

<a name="std__test__AssertFail"></a>
## `std::test::AssertFail`
```sh
assert_fail [error message]
```

This command will exist with an error.<br>
If error message is provided, it will be used as part of the error output.

### Parameters

Optional error message.

### Return Value

None

### Examples

```sh
assert_fail

assert_fail "This is my error message"
```


### Aliases:
assert_fail

<a name="std__test__AssertFalse"></a>
## `std::test::AssertFalse`
```sh
assert_false value [error message]
```

Used to validate the input is falsy.<br>
If the value is one of the following:

* No output
* false (case insensitive)
* 0
* no (case insensitive)
* Empty value

It is considered falsy.

### Parameters

* The value to evaluate
* Optional error message

### Return Value

**true** if falsy.

### Examples

```sh
# valid conditions
assert_false
assert_false false
assert_false 0
assert_false false "This is my error message"

# error conditions (each one will break the execution)
assert_false ok
assert_false true
assert_false yes

value = set "some text"
assert_false ${value}
```


### Aliases:
assert_false

<a name="std__test__TestDirectory"></a>
## `std::test::TestDirectory`
```sh
test_directory directory [pattern]
```

This command can be used to run unit tests written in duckscript.<br>
It will run all duckscript files in the directory tree ending with **test.ds** and for each file, it will run
all functions that start with **test_**.<br>
Each such function is considered as a test and can run any type of code and check itself using assert commands.

### Parameters

* The root directory of all test files (all files ending with **test.ds** in the directory tree will be checked)
* Optional pattern for the file name or test function to limit invocation of only those tests.

### Return Value

**true** if successful.

### Examples

This is an example of a test function:

```sh
function test_set_get_unset
    unset_env TEST_SET_GET_UNSET
    value = get_env TEST_SET_GET_UNSET
    assert_false ${value}

    value = set_env TEST_SET_GET_UNSET "test value"
    assert ${value}
    value = get_env TEST_SET_GET_UNSET
    assert_eq ${value} "test value"
end
```


### Aliases:
test_directory

<a name="std__test__TestFile"></a>
## `std::test::TestFile`
```sh
test_file file [test name]
```

This command can be used to run unit tests written in duckscript.<br>
It will run all test functions that start with **test_** in the given file.<br>
Each such function is considered as a test and can run any type of code and check itself using assert commands.

### Parameters

* The file name containing the test functions.
* Optional pattern for the test function to limit invocation of only those tests.

### Return Value

**true** if successful.

### Examples

This is an example of a test function:

```sh
function test_set_get_unset
    unset_env TEST_SET_GET_UNSET
    value = get_env TEST_SET_GET_UNSET
    assert_false ${value}

    value = set_env TEST_SET_GET_UNSET "test value"
    assert ${value}
    value = get_env TEST_SET_GET_UNSET
    assert_eq ${value} "test value"
end
```


### Aliases:
test_file

<a name="std__thread__Sleep"></a>
## `std::thread::Sleep`
```sh
sleep millies
```

Will cause the script execution to half for the given amount of milliseconds.<br>
The command will also return the amount of milliseconds waited.

### Parameters

A positive numeric value.

### Return Value

The amount of milliseconds waited.

### Examples

```sh
# will sleep for 10 milliseconds
time = sleep 10
echo Waited for ${time} milliseconds.
```


### Aliases:
sleep

<a name="std__time__CurrentTimeMillies"></a>
## `std::time::CurrentTimeMillies`
```sh
var = current_time
```

Returns the current time in milliseconds (from January 1, 1970 UTC).

### Parameters

None

### Return Value

The current time in milliseconds.

### Examples

```sh
result = current_time
echo ${result}
```


### Aliases:
current_time

<a name="std__var__GetAllVarNames"></a>
## `std::var::GetAllVarNames`
```sh
handle = get_all_var_names
```

Creates an array holding all currently known variable names and returns the array handle.

### Parameters

None

### Return Value

A handle to the array.

### Examples

```sh
handle = get_all_var_names

# once done we should release the handle
release ${handle}
```


### Aliases:
get_all_var_names

<a name="std__var__GetByName"></a>
## `std::var::GetByName`
```sh
var = get_by_name name
```

This command returns the variable value based on the given variable name.<br>
It is similar to
```sh
var = set ${name}
```
However, it allows for a dynamic variable name.

### Parameters

The variable name.

### Return Value

The variable value or none if no such variable exists.

### Examples

```sh
var = set test
value = get_by_name var
defined = is_defined value

assert ${defined}
assert_eq ${value} test
```


### Aliases:
get_by_name

<a name="std__var__IsDefined"></a>
## `std::var::IsDefined`
```sh
var = is_defined key
```

Returns true if the provided variable name (not value) exists.

### Parameters

The variable name.

### Return Value

True if the variable is defined.

### Examples

```sh
key = set "hello world"
exists = is_defined key
```


### Aliases:
is_defined

<a name="std__var__Set"></a>
## `std::var::Set`
```sh
var = set arg [or arg]*
```

The set command will simply return the provided argument and set it to the output variable.<br>
In case the argument is falsy it will attempt to provide another value if an 'or' keyword is set.

A value is considered falsy if it is one of the following:

* false (case insensitive)
* 0
* no (case insensitive)
* Empty value

### Parameters

The argument to set or an 'or' conditional arguments.

### Return Value

The first truthy value

### Examples

```sh
# Return simple 'hello' text value
var = set hello

# Return expanded value: 'home: ....'
var = set "home: ${HOME}"

value = set test or false
assert_eq ${value} test

value = set 0 or no or false or NO or FALSE
assert_eq ${value} FALSE
```


### Aliases:
set

<a name="std__var__SetByName"></a>
## `std::var::SetByName`
```sh
var = set_by_name name [value]
```

This command sets the variable value based on the variable name.<br>
It is similar to
```sh
name = set ${value}
```
However, it allows for a dynamic variable name.

### Parameters

* The variable name.
* The new variable value, if not provided, the variable will be unset.

### Return Value

The new variable value.

### Examples

```sh
var = set test
value = get_by_name var
defined = is_defined value

assert ${defined}
assert_eq ${value} test
```


### Aliases:
set_by_name

<a name="std__var__Unset"></a>
## `std::var::Unset`

```sh
unset [names]*
```

Undefines all the variable names provided.

### Parameters

A list of variable names to undefine.

### Return Value

None

### Examples

```sh
var = set 1
defined = is_defined var
assert ${defined}
unset var
defined = is_defined var
assert_false ${defined}
```


#### Source:
<details>
  <summary>Show Source</summary>

```sh

for scope::unset::name in ${scope::unset::arguments}
    set_by_name ${scope::unset::name}
end

```
</details>



### Aliases:
unset

<a name="std__var__UnsetAllVars"></a>
## `std::var::UnsetAllVars`
```sh
handle = unset_all_vars [--prefix value]
```

Removes all known variables.<br>
If the prefix is provided, only variables starting with the prefix value will be removed.

### Parameters

* Optional variable name prefix

### Return Value

None

### Examples

```sh
fn test_remove_all
    a = set 1
    b = set 2

    defined = is_defined a
    assert ${defined}
    defined = is_defined b
    assert ${defined}

    unset_all_vars

    defined = is_defined a
    assert_false ${defined}
    defined = is_defined b
    assert_false ${defined}
end

fn test_remove_by_prefix
    root1 = set true
    root1.child = set true
    root12 = set true

    root2 = set true

    defined = is_defined root1
    assert ${defined}
    defined = is_defined root1.child
    assert ${defined}
    defined = is_defined root12
    assert ${defined}
    defined = is_defined root2
    assert ${defined}

    unset_all_vars --prefix root1

    defined = is_defined root1
    assert_false ${defined}
    defined = is_defined root1.child
    assert_false ${defined}
    defined = is_defined root12
    assert_false ${defined}
    defined = is_defined root2
    assert ${defined}
end
```


### Aliases:
unset_all_vars

### License
Developed by Sagie Gur-Ari and licensed under the
[Apache 2](https://github.com/sagiegurari/duckscript/blob/master/LICENSE) open source license.
