# Table of Contents


### License
Developed by Sagie Gur-Ari and licensed under the
[Apache 2](https://github.com/sagiegurari/duckscript/blob/master/LICENSE) open source license.
